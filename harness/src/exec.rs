//! In-process execution of scenarios against the real n2 (linked as a library with
//! `--cfg n2_verif`): scripted commands, logical-clock mtimes, one trace event per
//! linearization point.

use crate::scn::*;
use n2::verif::{self, BuildInfo, BuildInfoLite, CommandResult, CommandTermination, ProgressEvent};
use serde_json::{json, Value};
use std::cell::RefCell;
use std::collections::BTreeMap;
use std::io::{Read, Seek, SeekFrom, Write};
use std::os::fd::AsRawFd;
use std::path::{Path, PathBuf};
use std::rc::Rc;
use std::time::{Duration, SystemTime};

const BASE_TIME: u64 = 1_600_000_000;
/// More events than this in one invocation means n2 is looping without terminating.
const EVENT_LIMIT: usize = 4_000;

/// Events of the run in progress (serialized), shared with the watchdog thread.
pub static CUR_EVENTS: std::sync::Mutex<Vec<String>> = std::sync::Mutex::new(Vec::new());
/// Incremented at every hook call; the watchdog declares a hang when it stops moving
/// while an invocation is in progress.
pub static HEARTBEAT: std::sync::atomic::AtomicU64 = std::sync::atomic::AtomicU64::new(0);
pub static IN_INVOCATION: std::sync::atomic::AtomicBool = std::sync::atomic::AtomicBool::new(false);

/// Captures everything n2 prints on stdout (fd 1) into a file.
pub struct StdoutCapture {
    file: std::fs::File,
    saved: i32,
}

impl StdoutCapture {
    pub fn new(path: &Path) -> Self {
        let file = std::fs::OpenOptions::new()
            .read(true)
            .write(true)
            .create(true)
            .truncate(true)
            .open(path)
            .expect("capture file");
        let saved = unsafe { libc::dup(1) };
        unsafe { libc::dup2(file.as_raw_fd(), 1) };
        StdoutCapture { file, saved }
    }
    fn begin(&mut self) {
        let _ = std::io::stdout().flush();
        let _ = self.file.set_len(0);
        let _ = self.file.seek(SeekFrom::Start(0));
    }
    fn end(&mut self) -> String {
        let _ = std::io::stdout().flush();
        let mut buf = Vec::new();
        let _ = self.file.seek(SeekFrom::Start(0));
        let _ = self.file.read_to_end(&mut buf);
        let _ = self.file.set_len(0);
        let _ = self.file.seek(SeekFrom::Start(0));
        String::from_utf8_lossy(&buf).into_owned()
    }
    /// A writer to the original stdout.
    pub fn real_stdout(&self) -> std::fs::File {
        use std::os::fd::FromRawFd;
        unsafe { std::fs::File::from_raw_fd(libc::dup(self.saved)) }
    }
}

#[derive(Default)]
struct World {
    inv_events: usize,
    clock: u64,
    /// effects per declared step of the manifest n2 is currently working with
    effs: Vec<StepEff>,
    versions: BTreeMap<String, ManifestVersion>,
    /// manifest name -> declared graph currently on disk
    manif: BTreeMap<String, Value>,
    inv: Invoke,
    /// (n2 build id, command line) of started, unreleased commands (a list: a step the
    /// code starts twice is in it twice)
    running: Vec<(usize, String)>,
    /// n2 build id -> path of the response file its command was started with
    rsp_paths: BTreeMap<usize, String>,
    finished: Vec<usize>,
    /// overrides set by `plan` / `effs` operations
    plan: Option<String>,
    reads_override: BTreeMap<String, Vec<String>>,
    decisions: Vec<(usize, usize)>,
    prefix: Vec<usize>,
    wait_no: usize,
    dbw_idx: usize,
    pending_build: Option<(Vec<String>, Vec<String>, u64)>,
    work_no: usize,
    stalled: bool,
    dead: Option<String>,
    /// depfile path -> the text this scenario's commands last wrote there
    dep_written: BTreeMap<String, String>,
}

impl World {
    fn ev(&mut self, v: Value) {
        HEARTBEAT.fetch_add(1, std::sync::atomic::Ordering::Relaxed);
        CUR_EVENTS.lock().unwrap().push(v.to_string());
        self.inv_events += 1;
    }

    /// Called from hooks: true when this invocation produced so many events that it is
    /// considered to loop forever.
    fn over_limit(&self) -> bool {
        self.inv_events > EVENT_LIMIT
    }

    fn tick(&mut self) -> u64 {
        self.clock += 1;
        self.clock
    }

    fn write_file(&mut self, path: &str, content: &[u8]) -> Result<u64, String> {
        let p = Path::new(path);
        std::fs::write(p, content).map_err(|e| format!("{}: {}", path, e))?;
        let t = self.tick();
        set_mtime(p, t)?;
        Ok(t)
    }

    fn set_effs_for(&mut self, file: &str) {
        if let Some(g) = self.manif.get(file) {
            self.effs = step_effs(g);
            for e in self.effs.iter_mut() {
                if let Some(o) = e.outs.first() {
                    if let Some(r) = self.reads_override.get(o) {
                        if !e.depfile.is_empty() || e.msvc {
                            e.reads = r.clone();
                            e.creads = r.clone();
                        }
                    }
                }
                if e.kind == "gen" {
                    if let Some(p) = &self.plan {
                        e.gen = p.clone();
                    }
                }
            }
        }
    }

    /// Performs what the command of declared step `s` (1-based) does when it finishes.
    fn finish_effects(&mut self, s: usize, outcome: &str) -> (Vec<Value>, Vec<u8>, Value) {
        let eff = self.effs.get(s - 1).cloned().unwrap_or_default();
        let mut writes = Vec::new();
        let mut notes = serde_json::Map::new();
        let do_write = outcome == "ok" || eff.failwrites;
        if do_write {
            let targets: Vec<String> = match eff.kind.as_str() {
                "none" => vec![],
                "first" => eff.outs.iter().take(1).cloned().collect(),
                _ => eff.outs.clone(),
            };
            for o in &targets {
                let exists = Path::new(o).exists();
                if eff.kind == "keep" && exists {
                    continue;
                }
                if eff.kind == "gen" && !eff.gen.is_empty() && *o == self.inv.file {
                    // the manifest itself is written below
                    continue;
                }
                let content = format!("out of step {} at {}\n", s, self.clock + 1);
                match self.write_file(o, content.as_bytes()) {
                    Ok(t) => writes.push(json!({"path": o, "mt": t})),
                    Err(e) => {
                        notes.insert("werr".into(), json!(e));
                    }
                }
            }
            if !eff.selfdisc.is_empty() && Path::new(&eff.selfdisc).exists() {
                if let Ok(t) = self.write_file(&eff.selfdisc, b"rewritten by the command that reads it\n") {
                    writes.push(json!({"path": eff.selfdisc, "mt": t}));
                }
            }
            if eff.kind == "self" {
                if let Some(i) = eff.ins.first() {
                    if let Ok(t) = self.write_file(i, b"rewritten by its consumer\n") {
                        writes.push(json!({"path": i, "mt": t}));
                    }
                }
            }
            if eff.kind == "gen" && !eff.gen.is_empty() {
                if let Some(v) = self.versions.get(&eff.gen).cloned() {
                    let name = self.inv.file.clone();
                    for (p, text) in &v.extra {
                        if let Ok(t) = self.write_file(p, text.as_bytes()) {
                            writes.push(json!({"path": p, "mt": t}));
                        }
                    }
                    let same = std::fs::read(&name).map(|b| b == v.text.as_bytes()).unwrap_or(false);
                    if eff.keepmain && same {
                        // write-if-changed generator: the text is what is on disk already
                        writes.retain(|w| w["path"] != json!(name));
                        self.manif.insert(name.clone(), v.g.clone());
                        notes.insert("gen".into(), json!({"name": name, "g": v.g}));
                    } else if let Ok(t) = self.write_file(&name, v.text.as_bytes()) {
                        // the manifest file is one of the step's outputs; report its final mtime
                        writes.retain(|w| w["path"] != json!(name));
                        writes.push(json!({"path": name, "mt": t}));
                        self.manif.insert(name.clone(), v.g.clone());
                        notes.insert("gen".into(), json!({"name": name, "g": v.g}));
                    }
                }
            }
        }
        if outcome != "ok" && eff.cleandir {
            // a failing command cleans up: output directories that are empty are removed
            let mut gone = Vec::new();
            for o in &eff.outs {
                if let Some(parent) = Path::new(o).parent() {
                    if !parent.as_os_str().is_empty() && std::fs::remove_dir(parent).is_ok() {
                        gone.push(parent.display().to_string());
                    }
                }
            }
            if !gone.is_empty() {
                notes.insert("rmdir".into(), json!(gone));
            }
        }
        // what the command reports
        let mut output = eff.output.clone().into_bytes();
        if outcome == "ok" || eff.failwrites {
            if !eff.depfile.is_empty() {
                let text = match &eff.depfile_text {
                    Some(t) => t.clone(),
                    None => {
                        let mut t = format!("{}:", eff.outs.first().cloned().unwrap_or_default());
                        for r in &eff.reads {
                            t.push(' ');
                            t.push_str(r);
                        }
                        t.push('\n');
                        t
                    }
                };
                // A command that finds its outputs in place and leaves them alone (kind "keep")
                // does not rewrite the depfile it wrote last time either, if it would be the same.
                let noop = eff.kind == "keep"
                    && outcome == "ok"
                    && self.dep_written.get(&eff.depfile) == Some(&text);
                if noop {
                    notes.insert("depfile-kept".into(), json!(eff.depfile));
                } else {
                    if let Some(parent) = Path::new(&eff.depfile).parent() {
                        let _ = std::fs::create_dir_all(parent);
                    }
                    let _ = std::fs::write(&eff.depfile, &text);
                    self.dep_written.insert(eff.depfile.clone(), text);
                    notes.insert("depfile".into(), json!(eff.depfile));
                }
            }
        }
        if eff.msvc {
            let mut notes_txt = Vec::new();
            for r in &eff.reads {
                notes_txt.extend_from_slice(format!("Note: including file: {}\n", r).as_bytes());
            }
            let mut o = Vec::new();
            match eff.notes_at.as_str() {
                "last" | "last-nonl" if output.is_empty() || output.ends_with(b"\n") => {
                    o.extend_from_slice(&output);
                    o.extend_from_slice(&notes_txt);
                    if eff.notes_at == "last-nonl" && !notes_txt.is_empty() {
                        o.pop(); // the compiler's last line is not terminated
                    }
                }
                "mid" if output.iter().filter(|&&c| c == b'\n').count() >= 2 => {
                    let cut = output.iter().position(|&c| c == b'\n').unwrap() + 1;
                    o.extend_from_slice(&output[..cut]);
                    o.extend_from_slice(&notes_txt);
                    o.extend_from_slice(&output[cut..]);
                }
                _ => {
                    o.extend_from_slice(&notes_txt);
                    o.extend_from_slice(&output);
                }
            }
            output = o;
        }
        (writes, output, Value::Object(notes))
    }
}

pub fn set_mtime(p: &Path, tick: u64) -> Result<(), String> {
    let f = std::fs::OpenOptions::new()
        .write(true)
        .open(p)
        .map_err(|e| format!("{}: {}", p.display(), e))?;
    f.set_modified(SystemTime::UNIX_EPOCH + Duration::from_secs(BASE_TIME + tick))
        .map_err(|e| format!("{}: {}", p.display(), e))
}

struct H(Rc<RefCell<World>>);

fn build_json(b: &BuildInfo) -> Value {
    let nx = b.explicit_ins;
    let ni = b.implicit_ins;
    let no = b.order_only_ins;
    let dirty: Vec<&String> = b.ins.iter().take(nx + ni).collect();
    let oo: Vec<&String> = b.ins.iter().skip(nx + ni).take(no).collect();
    let val: Vec<&String> = b.ins.iter().skip(nx + ni + no).collect();
    json!({
        "id": b.id + 1,
        "line": b.line,
        "loc": format!("{}:{}", b.file, b.line),
        "outs": b.outs,
        "nxo": b.explicit_outs,
        "ins": dirty,
        "nxi": nx,
        "oo": oo,
        "val": val,
        "phony": b.cmdline.is_none(),
        "cmd": b.cmdline.clone().unwrap_or_default(),
        "desc": b.desc.clone().unwrap_or_default(),
        "depfile": b.depfile.clone().unwrap_or_default(),
        "msvc": b.parse_showincludes,
        "rsp": b.rspfile.as_ref().map(|r| r.0.clone()).unwrap_or_default(),
        "rspc": b.rspfile.as_ref().map(|r| r.1.clone()).unwrap_or_default(),
        "hasrsp": b.rspfile.is_some(),
        "pool": b.pool.clone().unwrap_or_default(),
        "disc": b.discovered,
        "tok": b.hash.map(|h| format!("{:016x}", h)).unwrap_or_default(),
    })
}

impl verif::Hooks for H {
    fn work_new(&mut self, builds: Vec<BuildInfo>, pools: Vec<(String, usize)>) {
        let mut w = self.0.borrow_mut();
        w.work_no += 1;
        let file = w.inv.file.clone();
        w.set_effs_for(&file);
        w.running.clear();
        w.rsp_paths.clear();
        w.finished.clear();
        let n = w.work_no;
        let bs: Vec<Value> = builds.iter().map(build_json).collect();
        let ps: Vec<Value> = pools.iter().map(|(n, d)| json!([n, d])).collect();
        w.ev(json!({"e":"work","n":n,"builds":bs,"pools":ps}));
    }

    fn set(
        &mut self,
        id: usize,
        prev: &'static str,
        new: &'static str,
        counts: [usize; 6],
        pending: usize,
        pools: Vec<(String, usize, usize, usize)>,
    ) {
        let pr: Vec<Value> = pools
            .iter()
            .filter(|p| p.2 > 0 || p.3 > 0)
            .map(|p| json!([p.0, p.2, p.3]))
            .collect();
        let mut w = self.0.borrow_mut();
        w.ev(json!({"e":"set","id":id+1,"prev":prev,"new":new,
            "counts":counts.to_vec(),"pending":pending,"pools":pr}));
        if w.over_limit() {
            w.dead = Some("livelock".into());
            drop(w);
            verif::abandon();
        }
    }

    fn runner_start(&mut self, b: BuildInfoLite) {
        let mut w = self.0.borrow_mut();
        let cmd = b.cmdline.clone().unwrap_or_default();
        w.running.push((b.id, cmd.clone()));
        let rsp = match &b.rspfile {
            Some((p, c)) => {
                w.rsp_paths.insert(b.id, p.clone());
                json!([p, c])
            }
            None => json!([]),
        };
        // n2 has made the directories of the step's outputs by now (work.rs: create_parent_dirs
        // precedes Runner::start); later a concurrent command may remove them again
        let eff = w.effs.get(b.id).cloned().unwrap_or_default();
        let dirs_ok = eff.outs.iter().all(|o| match Path::new(o).parent() {
            Some(p) if !p.as_os_str().is_empty() => p.is_dir(),
            _ => true,
        });
        w.ev(json!({"e":"start","id":b.id+1,"cmd":cmd,"rsp":rsp,"pool":b.pool.unwrap_or_default(),
            "dirsok":dirs_ok}));
    }

    fn runner_wait(&mut self, running: usize) {
        let mut w = self.0.borrow_mut();
        w.wait_no += 1;
        if w.over_limit() {
            w.dead = Some("livelock".into());
            drop(w);
            verif::abandon();
        }
        // Kill point?
        if let Some(kill) = w.inv.kill.clone() {
            if kill.at == w.wait_no {
                let mut writes = Vec::new();
                for s in &kill.writes {
                    if w.running.iter().any(|(id, _)| *id == s - 1) {
                        let (ws, _, _) = w.finish_effects(*s, "ok");
                        writes.extend(ws);
                    }
                }
                let run: Vec<usize> = w.running.iter().map(|(k, _)| k + 1).collect();
                w.ev(json!({"e":"kill","wait":kill.at,"running":run,"writes":writes}));
                w.dead = Some("killed".into());
                drop(w);
                verif::abandon();
            }
        }
        // Wait until every running command has reached process::run_command.
        let registered = wait_registered(running);
        let mut cands: Vec<usize> = w
            .running
            .iter()
            .filter(|(_, c)| registered.contains(c))
            .map(|(id, _)| *id)
            .collect();
        cands.sort();
        cands.dedup();
        if cands.is_empty() {
            // Some task ended before reaching its command (e.g. response file error):
            // the real channel already holds its completion.
            w.ev(json!({"e":"note","what":"wait without registered command","running":running}));
            return;
        }
        let choice = match w.inv.policy.clone() {
            Policy::All | Policy::Prefix { .. } => {
                let k = w.decisions.len();
                let c = w.prefix.get(k).copied().unwrap_or(0).min(cands.len() - 1);
                w.decisions.push((c, cands.len()));
                cands[c]
            }
            Policy::Prio { order } => {
                let pos = |id: usize| {
                    order
                        .iter()
                        .position(|&o| o == id + 1)
                        .unwrap_or(usize::MAX - 1000 + id)
                };
                *cands.iter().min_by_key(|&&id| pos(id)).unwrap()
            }
            Policy::Hold { pairs } => {
                let fin = w.finished.clone();
                let ok: Vec<usize> = cands
                    .iter()
                    .copied()
                    .filter(|id| {
                        pairs
                            .iter()
                            .all(|(v, s)| *v != id + 1 || fin.contains(&(s - 1)))
                    })
                    .collect();
                if ok.is_empty() {
                    let run: Vec<usize> = cands.iter().map(|k| k + 1).collect();
                    w.ev(json!({"e":"stall","running":run}));
                    w.stalled = true;
                    w.dead = Some("stalled".into());
                    drop(w);
                    verif::abandon();
                }
                ok[0]
            }
            Policy::First => cands[0],
        };
        let s = choice + 1;
        let first_out = w
            .effs
            .get(s - 1)
            .and_then(|e| e.outs.first().cloned())
            .unwrap_or_default();
        let outcome = w
            .inv
            .outcomes
            .get(&s.to_string())
            .or_else(|| w.inv.outcomes_by_out.get(&first_out))
            .cloned()
            .unwrap_or_else(|| "ok".to_string());
        let cmd = w
            .running
            .iter()
            .find(|(id, _)| *id == choice)
            .map(|(_, c)| c.clone())
            .unwrap_or_default();
        // Observations made while the command "runs".
        let eff = w.effs.get(s - 1).cloned().unwrap_or_default();
        let dirs_ok = eff.outs.iter().all(|o| match Path::new(o).parent() {
            Some(p) if !p.as_os_str().is_empty() => p.is_dir(),
            _ => true,
        });
        // what the command finds in its response file when it runs
        let rspdisk = match w.rsp_paths.get(&choice) {
            Some(p) => std::fs::read(p)
                .map(|b| String::from_utf8_lossy(&b).into_owned())
                .unwrap_or_else(|_| "<missing>".to_string()),
            None => String::new(),
        };
        let (writes, output, notes) = w.finish_effects(s, &outcome);
        // How the pipe happens to cut the command's output into reads is the environment's
        // choice; what n2 shows and extracts must not depend on it.
        let chunk = if eff.chunk > 0 {
            eff.chunk
        } else {
            [0usize, 1, 5, 13, 64][(s * 7 + w.wait_no * 3) % 5]
        };
        let run: Vec<usize> = cands.iter().map(|k| k + 1).collect();
        let hasdeps = !eff.depfile.is_empty() || eff.msvc;
        let (reported, reads) = if hasdeps {
            (eff.creads.clone(), eff.reads.clone())
        } else {
            (vec![], vec![])
        };
        w.ev(json!({"e":"finish","id":s,"out":outcome,"writes":writes,
            "reported":reported,"reads":reads,"hasdeps":hasdeps,"shown":eff.output,
            "dirsok":dirs_ok,"rspdisk":rspdisk,"notes":notes,"cands":run,"chunk":chunk}));
        if let Some(pos) = w.running.iter().position(|(id, _)| *id == choice) {
            w.running.remove(pos);
        }
        w.finished.push(choice);
        let termination = match outcome.as_str() {
            "ok" => CommandTermination::Success,
            "intr" => CommandTermination::Interrupted,
            _ => CommandTermination::Failure,
        };
        drop(w);
        verif::release_command(&cmd, CommandResult { termination, output, chunk });
    }

    fn runner_done(&mut self, id: usize, termination: &'static str) {
        self.0
            .borrow_mut()
            .ev(json!({"e":"done","id":id+1,"t":termination}));
    }

    fn db_write(&mut self, bytes: &[u8]) -> Option<usize> {
        let mut w = self.0.borrow_mut();
        w.dbw_idx += 1;
        let idx = w.dbw_idx;
        let mut ev = serde_json::Map::new();
        ev.insert("e".into(), json!("dbw"));
        ev.insert("idx".into(), json!(idx));
        ev.insert("len".into(), json!(bytes.len()));
        let kind = if bytes == b"n2db" {
            "sig1"
        } else if bytes.len() == 4 && bytes == 1u32.to_le_bytes() {
            "sig2"
        } else if bytes.len() >= 2 && (bytes[1] & 0x80) != 0 {
            "build"
        } else {
            "path"
        };
        ev.insert("kind".into(), json!(kind));
        if kind == "path" && bytes.len() >= 2 {
            ev.insert(
                "name".into(),
                json!(String::from_utf8_lossy(&bytes[2..]).into_owned()),
            );
        }
        if kind == "build" {
            if let Some((outs, deps, hash)) = w.pending_build.take() {
                ev.insert("outs".into(), json!(outs));
                ev.insert("deps".into(), json!(deps));
                ev.insert("tok".into(), json!(format!("{:016x}", hash)));
            }
        }
        let crash = w.inv.crash.clone();
        let mut res = None;
        if let Some(c) = crash {
            if c.idx == idx {
                let kept = c.kept.min(bytes.len());
                ev.insert("kept".into(), json!(kept));
                res = Some(kept);
                w.dead = Some("crashed".into());
            }
        }
        w.ev(Value::Object(ev));
        res
    }

    fn db_build(&mut self, outs: Vec<String>, deps: Vec<String>, hash: u64) {
        self.0.borrow_mut().pending_build = Some((outs, deps, hash));
    }

    fn progress(&mut self, ev: ProgressEvent) {
        let mut w = self.0.borrow_mut();
        match ev {
            ProgressEvent::Update(c, total) => {
                w.ev(json!({"e":"pu","c":c.to_vec(),"total":total}));
                if w.over_limit() {
                    w.dead = Some("livelock".into());
                    drop(w);
                    verif::abandon();
                }
            }
            ProgressEvent::TaskStarted(id) => w.ev(json!({"e":"ps","id":id+1})),
            ProgressEvent::TaskOutput(..) => {}
            ProgressEvent::TaskFinished {
                id,
                termination,
                output,
                discovered,
            } => {
                let has = discovered.is_some();
                w.ev(json!({"e":"pf","id":id+1,"t":termination,
                    "out":String::from_utf8_lossy(&output),
                    "hasdisc":has,"disc":discovered.unwrap_or_default()}))
            }
            ProgressEvent::Log(m) => {
                let x = parse_explain(&m);
                w.ev(json!({"e":"pl","msg":m,"x":x}))
            }
        }
    }
}

/// Lexical decoding of the lines `-d explain` logs (work.rs check_build_dirty, hash.rs
/// ExplainHash): the reason line, and the listing of what was hashed.  No judgement here: the
/// trace specification compares it with the manifest rule.  mtimes come back as scenario ticks.
fn parse_explain(m: &str) -> Value {
    fn stamp(line: &str) -> Option<Value> {
        let l = line.strip_prefix("  ")?;
        let (ms, name) = l.split_once(' ')?;
        let ms: u64 = ms.parse().ok()?;
        let tick = (ms / 1000) as i64 - BASE_TIME as i64;
        Some(json!([name, tick]))
    }
    if let Some(rest) = m.strip_prefix("explain: ") {
        if let Some(loc) = rest.strip_suffix(": no previous state known") {
            return json!({"kind":"norec","loc":loc,"file":""});
        }
        if let Some(loc) = rest.strip_suffix(": manifest changed") {
            return json!({"kind":"changed","loc":loc,"file":""});
        }
        if let Some(body) = rest.strip_suffix(" missing") {
            if let Some(i) = body.find(": input ") {
                return json!({"kind":"missing","loc":&body[..i],"file":&body[i + 8..]});
            }
        }
        return json!({"kind":"other","loc":"","file":""});
    }
    if m.starts_with("in:\n") {
        let mut sec = "";
        let (mut ins, mut disc, mut outs) = (Vec::new(), Vec::new(), Vec::new());
        let mut cmd = String::new();
        let mut rsp = String::new();
        let mut hasrsp = false;
        let mut bad = false;
        for line in m.lines() {
            if line == "in:" || line == "discovered:" || line == "out:" {
                sec = line;
            } else if let Some(c) = line.strip_prefix("cmdline: ") {
                cmd = c.to_string();
                sec = "";
            } else if line == "cmdline:" {
                sec = "";
            } else if let Some(p) = line.strip_prefix("rspfile path: ") {
                rsp = p.to_string();
                hasrsp = true;
            } else if line.starts_with("rspfile hash: ") {
            } else if let Some(s) = stamp(line) {
                match sec {
                    "in:" => ins.push(s),
                    "discovered:" => disc.push(s),
                    "out:" => outs.push(s),
                    _ => bad = true,
                }
            } else {
                bad = true;
            }
        }
        return json!({"kind":"sig","ins":ins,"disc":disc,"cmd":cmd,"rsp":rsp,"hasrsp":hasrsp,
                      "outs":outs,"bad":bad,"loc":"","file":""});
    }
    json!({"kind":"","loc":"","file":""})
}

fn wait_registered(n: usize) -> Vec<String> {
    // All running task threads normally reach run_command within microseconds.  A task
    // that fails earlier (response file cannot be written) never registers, so bound the
    // wait; what has registered by then is what can be finished.
    verif::wait_for_commands(n, Duration::from_millis(2000))
}

/// Splits n2's error text into a kind and its argument (pure tokenising of the message).
pub fn classify_error(err: &str) -> (&'static str, String, Vec<String>) {
    fn quoted(s: &str) -> String {
        // Debug-formatted string: strip the quotes, undo the common escapes
        let t = s.trim();
        let t = t.strip_prefix('"').unwrap_or(t);
        let t = t.strip_suffix('"').unwrap_or(t);
        t.replace("\\\\", "\\").replace("\\\"", "\"")
    }
    if err.is_empty() {
        return ("", String::new(), vec![]);
    }
    if let Some(rest) = err.strip_prefix("dependency cycle: ") {
        let names: Vec<String> = rest.split(" -> ").map(|s| s.to_string()).collect();
        return ("cycle", String::new(), names);
    }
    if let Some(rest) = err.strip_prefix("unknown path requested: ") {
        return ("unknown_path", quoted(rest), vec![]);
    }
    if let Some(pos) = err.find(": unknown pool ") {
        return ("unknown_pool", quoted(&err[pos + 15..]), vec![]);
    }
    if err.contains(": input ") && err.ends_with(" missing") {
        let pos = err.find(": input ").unwrap();
        let name = &err[pos + 8..err.len() - 8];
        return ("missing_input", name.to_string(), vec![]);
    }
    if err.contains("but has no dependency path to it") {
        return ("nodeppath", String::new(), vec![]);
    }
    if err.starts_with("parse error:") {
        return ("parse", String::new(), vec![]);
    }
    if err.contains("is already an output at") {
        return ("dupout", String::new(), vec![]);
    }
    if err.starts_with("load .n2_db:") {
        return ("loaddb", String::new(), vec![]);
    }
    if err.starts_with("read ") {
        return ("readfail", String::new(), vec![]);
    }
    if err.starts_with("unknown rule") {
        return ("unknown_rule", String::new(), vec![]);
    }
    ("other", String::new(), vec![])
}

pub struct Engine {
    pub root: PathBuf,
    pub capture: StdoutCapture,
    pub counter: usize,
    /// directory n2 is started in / directory of the project (they differ with -C)
    pub scn_dir: PathBuf,
    pub proj_dir: PathBuf,
}

pub struct RunResult {
    /// the run ended because n2 looped or blocked forever
    pub stuck: bool,
    pub events: Vec<String>,
    pub decisions: Vec<(usize, usize)>,
}

fn panic_message(p: &Box<dyn std::any::Any + Send>) -> String {
    if let Some(s) = p.downcast_ref::<&str>() {
        s.to_string()
    } else if let Some(s) = p.downcast_ref::<String>() {
        s.clone()
    } else {
        "panic".to_string()
    }
}

impl Engine {
    pub fn new(root: &Path) -> Self {
        std::fs::create_dir_all(root).expect("scratch root");
        let capture = StdoutCapture::new(&root.join("stdout.cap"));
        std::panic::set_hook(Box::new(|_| {}));
        verif::set_scripted(true);
        Engine {
            root: root.to_path_buf(),
            capture,
            counter: 0,
            scn_dir: root.to_path_buf(),
            proj_dir: root.to_path_buf(),
        }
    }

    /// Runs one scenario once with the given choice prefix.
    pub fn run_once(&mut self, scn: &Scenario, run_id: &str, prefix: &[usize]) -> RunResult {
        self.counter += 1;
        let dir = self.root.join("w");
        let _ = std::fs::remove_dir_all(&dir);
        std::fs::create_dir_all(&dir).expect("scenario dir");
        self.scn_dir = dir.clone();
        let dir = if scn.cdir.is_empty() { dir } else { dir.join(&scn.cdir) };
        std::fs::create_dir_all(&dir).expect("project dir");
        self.proj_dir = dir.clone();
        std::env::set_current_dir(&dir).expect("chdir");
        CUR_EVENTS.lock().unwrap().clear();
        let world = Rc::new(RefCell::new(World {
            versions: scn.versions.clone(),
            prefix: prefix.to_vec(),
            ..Default::default()
        }));
        world
            .borrow_mut()
            .ev(json!({"e":"scn","id":run_id,"fam":scn.fam}));
        for op in &scn.ops {
            match op {
                Op::Manifest {
                    name,
                    ver,
                    text,
                    g,
                    extra,
                } => {
                    let mut w = world.borrow_mut();
                    let (text, g, extra) = match ver {
                        Some(v) => {
                            let mv = w.versions.get(v).cloned().expect("manifest version");
                            (mv.text, mv.g, mv.extra)
                        }
                        None => (
                            text.clone().unwrap_or_default(),
                            g.clone().unwrap_or(Value::Null),
                            extra.clone(),
                        ),
                    };
                    for (p, t) in &extra {
                        if let Some(parent) = Path::new(p).parent() {
                            let _ = std::fs::create_dir_all(parent);
                        }
                        let mt = w.write_file(p, t.as_bytes()).unwrap_or(0);
                        w.ev(json!({"e":"fs","op":"write","path":p,"mt":mt}));
                    }
                    if let Some(parent) = Path::new(name).parent() {
                        let _ = std::fs::create_dir_all(parent);
                    }
                    let mt = w.write_file(name, text.as_bytes()).unwrap_or(0);
                    w.manif.insert(name.clone(), g.clone());
                    w.ev(json!({"e":"manifest","name":name,"mt":mt,"g":g}));
                }
                Op::Write { path } => {
                    let mut w = world.borrow_mut();
                    if let Some(parent) = Path::new(path).parent() {
                        let _ = std::fs::create_dir_all(parent);
                    }
                    let content = format!("source {} at {}\n", path, w.clock + 1);
                    let mt = w.write_file(path, content.as_bytes()).unwrap_or(0);
                    w.ev(json!({"e":"fs","op":"write","path":path,"mt":mt}));
                }
                Op::Raw { path, text } => {
                    let mut w = world.borrow_mut();
                    if let Some(parent) = Path::new(path).parent() {
                        let _ = std::fs::create_dir_all(parent);
                    }
                    let mt = w.write_file(path, text.as_bytes()).unwrap_or(0);
                    w.ev(json!({"e":"fs","op":"write","path":path,"mt":mt}));
                }
                Op::Symlink { path, target } => {
                    let mut w = world.borrow_mut();
                    for p in [path, target] {
                        if let Some(parent) = Path::new(p).parent() {
                            let _ = std::fs::create_dir_all(parent);
                        }
                    }
                    let content = format!("source {} (through a link) at {}\n", path, w.clock + 1);
                    let mt = w.write_file(target, content.as_bytes()).unwrap_or(0);
                    let _ = std::fs::remove_file(path);
                    let abs = std::env::current_dir().map(|c| c.join(target)).unwrap_or_else(|_| PathBuf::from(target));
                    let _ = std::os::unix::fs::symlink(&abs, path);
                    w.ev(json!({"e":"fs","op":"write","path":path,"mt":mt}));
                }
                Op::Rm { path } => {
                    let mut w = world.borrow_mut();
                    let _ = std::fs::remove_file(path);
                    w.ev(json!({"e":"fs","op":"rm","path":path,"mt":0}));
                }
                Op::Invoke(inv) => {
                    self.invoke(&world, inv);
                }
                Op::Plan { gen } => {
                    world.borrow_mut().plan = Some(gen.clone());
                }
                Op::Effs { reads } => {
                    let mut w = world.borrow_mut();
                    for (k, v) in reads {
                        w.reads_override.insert(k.clone(), v.clone());
                    }
                }
                Op::Expect {
                    ran,
                    ok,
                    deps,
                    recorded,
                    unknown,
                    nok,
                } => {
                    world.borrow_mut().ev(
                        json!({"e":"expect","ran":ran,"ok":ok,"deps":deps,"recorded":recorded,"unknown":unknown,"nok":nok}),
                    );
                }
            }
        }
        let _ = std::env::set_current_dir(&self.root);
        let mut w = world.borrow_mut();
        RunResult {
            stuck: matches!(w.dead.as_deref(), Some("livelock")),
            events: std::mem::take(&mut *CUR_EVENTS.lock().unwrap()),
            decisions: std::mem::take(&mut w.decisions),
        }
    }

    fn invoke(&mut self, world: &Rc<RefCell<World>>, inv: &Invoke) {
        {
            let mut w = world.borrow_mut();
            w.inv = inv.clone();
            w.inv_events = 0;
            w.wait_no = 0;
            w.work_no = 0;
            w.running.clear();
            w.finished.clear();
            w.stalled = false;
            w.dead = None;
            w.pending_build = None;
            let file = inv.file.clone();
            w.set_effs_for(&file);
            w.ev(json!({"e":"invoke","targets":inv.targets,"j":inv.j,"k":inv.k,
                "adopt":inv.adopt,"file":inv.file,"argv":inv.argv,"explain":inv.explain,"cdir":inv.cdir}));
        }
        verif::set_scripted(true);
        verif::install(Box::new(H(world.clone())));
        verif::set_argv(inv.argv.clone());
        if !inv.cdir.is_empty() {
            // n2 is started in the scenario directory and has -C <cdir> among its arguments
            let _ = std::env::set_current_dir(&self.scn_dir);
        }
        self.capture.begin();
        IN_INVOCATION.store(true, std::sync::atomic::Ordering::SeqCst);
        let res = std::panic::catch_unwind(std::panic::AssertUnwindSafe(|| n2::run::run()));
        IN_INVOCATION.store(false, std::sync::atomic::Ordering::SeqCst);
        let out = self.capture.end();
        verif::uninstall();
        // Commands still in flight (n2 returned early or was abandoned): wait until their
        // task threads have registered, then make them return, so that no thread of this
        // invocation can register later and be mistaken for a command of the next one.
        let inflight = world.borrow().running.len();
        HEARTBEAT.fetch_add(1, std::sync::atomic::Ordering::Relaxed);
        if inflight > 0 {
            let _ = verif::wait_for_commands(inflight, Duration::from_millis(2000));
        }
        verif::abort_commands();
        let mut w = world.borrow_mut();
        let mut exit: i64 = -1;
        let mut err = String::new();
        let mut panic = String::new();
        let mut dead = String::new();
        match res {
            Ok(Ok(code)) => exit = code as i64,
            Ok(Err(e)) => {
                exit = 1;
                err = format!("{}", e);
            }
            Err(p) => {
                if p.downcast_ref::<verif::Abandon>().is_some() {
                    dead = w.dead.clone().unwrap_or_else(|| "abandoned".into());
                } else {
                    panic = panic_message(&p);
                    exit = 101;
                }
            }
        }
        let mut summary = "none";
        let mut n: i64 = -1;
        let mut warns = Vec::new();
        for line in out.lines() {
            if line == "n2: no work to do" {
                summary = "nowork";
                n = 0;
            } else if let Some(rest) = line.strip_prefix("n2: ran ") {
                summary = "ran";
                n = rest
                    .split(' ')
                    .next()
                    .and_then(|x| x.parse().ok())
                    .unwrap_or(-1);
            } else if line.starts_with("n2: warn:") {
                warns.push(line.to_string());
            }
        }
        let (errk, errarg, cyc) = classify_error(&err);
        // the directory n2 worked in, relative to the one it was started in
        let cwd_rel = std::env::current_dir()
            .ok()
            .and_then(|c| c.strip_prefix(&self.scn_dir).ok().map(|p| p.display().to_string()))
            .unwrap_or_else(|| "?".to_string());
        let _ = std::env::set_current_dir(&self.proj_dir);
        // where build logs are now (n2 runs in the scenario's directory): every file named
        // .n2_db at most three levels down
        let mut dbat: Vec<String> = Vec::new();
        fn walk(dir: &Path, rel: &str, depth: usize, out: &mut Vec<String>) {
            if let Ok(rd) = std::fs::read_dir(dir) {
                for e in rd.flatten() {
                    let name = e.file_name().to_string_lossy().into_owned();
                    let r = if rel.is_empty() { name.clone() } else { format!("{}/{}", rel, name) };
                    let p = e.path();
                    if name == ".n2_db" {
                        out.push(r);
                    } else if depth > 0 && p.is_dir() {
                        walk(&p, &r, depth - 1, out);
                    }
                }
            }
        }
        walk(Path::new("."), "", 3, &mut dbat);
        dbat.sort();
        let dbsize: i64 = dbat
            .first()
            .and_then(|p| std::fs::metadata(p).ok())
            .map(|m| m.len() as i64)
            .unwrap_or(-1);
        w.ev(json!({"e":"end","exit":exit,"err":err,"errk":errk,"errarg":errarg,"cyc":cyc,
            "panic":panic,"dead":dead,"summary":summary,"n":n,"warns":warns,"dbat":dbat,"cwd":cwd_rel,"dbsize":dbsize}));
    }

    /// Runs a scenario under every completion order (bounded), calling `sink` per run.
    pub fn run_all(
        &mut self,
        scn: &Scenario,
        cap: usize,
        mut sink: impl FnMut(&str, &RunResult),
    ) -> (usize, bool) {
        let mut prefix: Vec<usize> = Vec::new();
        let mut runs = 0;
        let cap = scn.max_orders.unwrap_or(cap);
        loop {
            let run_id = if runs == 0 && prefix.is_empty() {
                format!("{}#0", scn.id)
            } else {
                format!(
                    "{}#{}",
                    scn.id,
                    prefix
                        .iter()
                        .map(|c| c.to_string())
                        .collect::<Vec<_>>()
                        .join(".")
                )
            };
            let r = self.run_once(scn, &run_id, &prefix);
            runs += 1;
            sink(&run_id, &r);
            if r.stuck {
                // one non-terminating run decides the scenario; further orders add nothing
                return (runs, true);
            }
            // next prefix in DFS order
            let mut d = r.decisions.clone();
            loop {
                match d.pop() {
                    None => return (runs, false),
                    Some((c, n)) => {
                        if c + 1 < n {
                            prefix = d.iter().map(|x| x.0).collect();
                            prefix.push(c + 1);
                            break;
                        }
                    }
                }
            }
            if runs >= cap {
                return (runs, true);
            }
        }
    }
}
