//! n2v — conformance harness binding the TLA+ specification of n2 to the real code.
//!
//!   n2v run --scn FILE --out FILE [--root DIR] [--cap N] [--shard i/n]
//!       execute scenarios (NDJSON, one per line) in-process and write the event traces
//!   n2v vec KIND --in FILE --out FILE
//!       replay TLC-generated (input, expected) vectors into the real functions
//!
//! Exit status: 0 = ran to completion (verdicts are in the output), 2 = tool error.

mod exec;
mod scn;
mod vectors;

use std::io::{BufRead, BufWriter, Write};
use std::path::PathBuf;

fn arg(args: &[String], name: &str) -> Option<String> {
    args.iter()
        .position(|a| a == name)
        .and_then(|i| args.get(i + 1).cloned())
}

fn main() {
    let args: Vec<String> = std::env::args().collect();
    if args.len() < 2 {
        eprintln!("usage: n2v run|vec ...");
        std::process::exit(2);
    }
    let code = match args[1].as_str() {
        "run" => cmd_run(&args[2..]),
        "vec" => vectors::cmd_vec(&args[2..]),
        _ => {
            eprintln!("unknown subcommand");
            2
        }
    };
    std::process::exit(code);
}

fn cmd_run(args: &[String]) -> i32 {
    let scn_path = arg(args, "--scn").expect("--scn");
    let out_path = arg(args, "--out").expect("--out");
    let root = PathBuf::from(arg(args, "--root").unwrap_or_else(|| {
        format!("/dev/shm/n2v-{}", std::process::id())
    }));
    let cap: usize = arg(args, "--cap").and_then(|s| s.parse().ok()).unwrap_or(64);
    let (shard_i, shard_n) = match arg(args, "--shard") {
        Some(s) => {
            let mut it = s.split('/');
            (
                it.next().unwrap().parse::<usize>().unwrap(),
                it.next().unwrap().parse::<usize>().unwrap(),
            )
        }
        None => (0, 1),
    };
    let progress_path = arg(args, "--progress");
    let input = std::io::BufReader::new(std::fs::File::open(&scn_path).expect("open scenarios"));
    let mut out = BufWriter::new(std::fs::File::create(&out_path).expect("create out"));
    let mut engine = exec::Engine::new(&root);
    let mut n_scn = 0usize;
    let mut n_runs = 0usize;
    let mut n_events = 0usize;
    let mut n_trunc = 0usize;
    for (i, line) in input.lines().enumerate() {
        let line = line.expect("read");
        if line.trim().is_empty() || i % shard_n != shard_i {
            continue;
        }
        let scn: scn::Scenario = match serde_json::from_str(&line) {
            Ok(s) => s,
            Err(e) => {
                eprintln!("bad scenario at line {}: {}", i + 1, e);
                return 2;
            }
        };
        if let Some(p) = &progress_path {
            let _ = std::fs::write(p, format!("{}\n{}\n", scn.id, line));
        }
        n_scn += 1;
        let (runs, truncated) = engine.run_all(&scn, cap, |_id, r| {
            for ev in &r.events {
                let _ = writeln!(out, "{}", ev);
                n_events += 1;
            }
        });
        n_runs += runs;
        if truncated {
            n_trunc += 1;
        }
    }
    let _ = out.flush();
    let _ = std::fs::remove_dir_all(&root);
    let mut real = engine.capture.real_stdout();
    let _ = writeln!(
        real,
        "{{\"scenarios\":{},\"runs\":{},\"events\":{},\"truncated\":{}}}",
        n_scn, n_runs, n_events, n_trunc
    );
    0
}
