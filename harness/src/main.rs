//! n2v — conformance harness binding the TLA+ specification of n2 to the real code.
//!
//!   n2v run --scn FILE --out FILE [--root DIR] [--cap N] [--shard i/n]
//!       execute scenarios (NDJSON, one per line) in-process and write the event traces
//!   n2v vec KIND --in FILE --out FILE
//!       replay TLC-generated (input, expected) vectors into the real functions
//!
//! Exit status: 0 = ran to completion (verdicts are in the output), 2 = tool error.

mod exec;
mod scn;
mod vectors;

use std::io::{BufRead, BufWriter, Write};
use std::path::PathBuf;

fn arg(args: &[String], name: &str) -> Option<String> {
    args.iter()
        .position(|a| a == name)
        .and_then(|i| args.get(i + 1).cloned())
}

fn main() {
    let args: Vec<String> = std::env::args().collect();
    if args.len() < 2 {
        eprintln!("usage: n2v run|vec ...");
        std::process::exit(2);
    }
    let code = match args[1].as_str() {
        "run" => cmd_run(&args[2..]),
        "vec" => vectors::cmd_vec(&args[2..]),
        _ => {
            eprintln!("unknown subcommand");
            2
        }
    };
    std::process::exit(code);
}

fn cmd_run(args: &[String]) -> i32 {
    let scn_path = arg(args, "--scn").expect("--scn");
    let out_path = arg(args, "--out").expect("--out");
    let root = PathBuf::from(arg(args, "--root").unwrap_or_else(|| {
        format!("/dev/shm/n2v-{}", std::process::id())
    }));
    let cap: usize = arg(args, "--cap").and_then(|s| s.parse().ok()).unwrap_or(64);
    let (shard_i, shard_n) = match arg(args, "--shard") {
        Some(s) => {
            let mut it = s.split('/');
            (
                it.next().unwrap().parse::<usize>().unwrap(),
                it.next().unwrap().parse::<usize>().unwrap(),
            )
        }
        None => (0, 1),
    };
    let progress_path = arg(args, "--progress");
    let resume_after = arg(args, "--resume-after");
    let event_budget: usize = arg(args, "--event-budget")
        .and_then(|s| s.parse().ok())
        .unwrap_or(1_500_000);
    let mut skipping = resume_after.is_some();
    let input = std::io::BufReader::new(std::fs::File::open(&scn_path).expect("open scenarios"));
    let mut out = BufWriter::new(std::fs::File::create(&out_path).expect("create out"));
    let mut engine = exec::Engine::new(&root);
    // Watchdog: n2 blocked forever (e.g. waiting for a completion that never comes) is a
    // verdict about the code under test, not a tool failure: flush what was recorded for the
    // run in progress, mark it, and stop this process with status 3 (the driver resumes
    // after the scenario).
    {
        let out_path = out_path.clone();
        std::thread::spawn(move || {
            use std::sync::atomic::Ordering;
            let mut last = exec::HEARTBEAT.load(Ordering::Relaxed);
            let mut idle = 0u32;
            loop {
                std::thread::sleep(std::time::Duration::from_millis(500));
                let now = exec::HEARTBEAT.load(Ordering::Relaxed);
                if now != last || !exec::IN_INVOCATION.load(Ordering::SeqCst) {
                    last = now;
                    idle = 0;
                    continue;
                }
                idle += 1;
                if idle >= 120 {
                    let evs = exec::CUR_EVENTS.lock().unwrap().clone();
                    if let Ok(mut f) = std::fs::OpenOptions::new()
                        .create(true)
                        .append(true)
                        .open(format!("{}.hang", out_path))
                    {
                        for e in evs {
                            let _ = writeln!(f, "{}", e);
                        }
                        let _ = writeln!(
                            f,
                            "{}",
                            serde_json::json!({"e":"end","exit":-1,"err":"","errk":"","errarg":"",
                                "cyc":[],"panic":"","dead":"hang","summary":"none","n":-1,"warns":[]})
                        );
                    }
                    std::process::exit(3);
                }
            }
        });
    }
    let mut n_scn = 0usize;
    let mut n_runs = 0usize;
    let mut n_events = 0usize;
    let mut n_trunc = 0usize;
    for (i, line) in input.lines().enumerate() {
        let line = line.expect("read");
        if line.trim().is_empty() || i % shard_n != shard_i {
            continue;
        }
        let scn: scn::Scenario = match serde_json::from_str(&line) {
            Ok(s) => s,
            Err(e) => {
                eprintln!("bad scenario at line {}: {}", i + 1, e);
                return 2;
            }
        };
        if skipping {
            if Some(&scn.id) == resume_after.as_ref() {
                skipping = false;
            }
            continue;
        }
        if let Some(p) = &progress_path {
            let _ = std::fs::write(p, format!("{}\n{}\n", scn.id, line));
        }
        n_scn += 1;
        let (runs, truncated) = engine.run_all(&scn, cap, |_id, r| {
            for ev in &r.events {
                let _ = writeln!(out, "{}", ev);
                n_events += 1;
            }
        });
        let _ = out.flush();
        n_runs += runs;
        if truncated {
            n_trunc += 1;
        }
        if n_events > event_budget {
            // far more than any healthy tree produces for these families: the code under
            // test is misbehaving massively and what is recorded decides the checks
            eprintln!("event budget exhausted after scenario {}", scn.id);
            break;
        }
    }
    let _ = out.flush();
    let _ = std::fs::remove_dir_all(&root);
    let mut real = engine.capture.real_stdout();
    let _ = writeln!(
        real,
        "{{\"scenarios\":{},\"runs\":{},\"events\":{},\"truncated\":{}}}",
        n_scn, n_runs, n_events, n_trunc
    );
    0
}
