//! Scenario format (input of the in-process engines) — see DESIGN.md appendix D.

use serde::{Deserialize, Serialize};
use serde_json::Value;
use std::collections::BTreeMap;

#[derive(Deserialize, Serialize, Clone, Debug)]
pub struct Scenario {
    pub id: String,
    #[serde(default)]
    pub fam: String,
    /// Named manifest versions a generator step can write (`eff.gen`).
    #[serde(default)]
    pub versions: BTreeMap<String, ManifestVersion>,
    pub ops: Vec<Op>,
    /// Upper bound on the number of completion orders explored for this scenario.
    #[serde(default)]
    pub max_orders: Option<usize>,
    /// The project lives in this subdirectory of the scenario directory; n2 is started in the
    /// scenario directory and told to go there with -C (the generator puts it in argv).
    #[serde(default)]
    pub cdir: String,
}

#[derive(Deserialize, Serialize, Clone, Debug)]
pub struct ManifestVersion {
    pub text: String,
    pub g: Value,
    /// Additional files (includes) written together with the manifest.
    #[serde(default)]
    pub extra: Vec<(String, String)>,
}

#[derive(Deserialize, Serialize, Clone, Debug)]
#[serde(tag = "op", rename_all = "lowercase")]
pub enum Op {
    /// Write manifest `name` from version `ver` (or inline text + g).
    Manifest {
        name: String,
        #[serde(default)]
        ver: Option<String>,
        #[serde(default)]
        text: Option<String>,
        #[serde(default)]
        g: Option<Value>,
        #[serde(default)]
        extra: Vec<(String, String)>,
    },
    Write {
        path: String,
    },
    Rm {
        path: String,
    },
    /// `path` becomes a symbolic link to the file `target` (which gets fresh content); later
    /// writes to `path` go through the link, as an editor or a generator would.
    Symlink {
        path: String,
        target: String,
    },
    /// Raw file with given content (no graph meaning), e.g. an include or a stray file.
    Raw {
        path: String,
        text: String,
    },
    Invoke(Invoke),
    /// The generator step will write this manifest version when it next runs (overrides the
    /// version named in the declared graph; the manifest file itself is not touched).
    Plan {
        gen: String,
    },
    /// What the commands of the steps with these first outputs read (and report) from now on,
    /// without rewriting the manifest.
    Effs {
        reads: BTreeMap<String, Vec<String>>,
    },
    /// What the history model (N2Hist) predicts for the invocation just made; copied into the
    /// trace as an `expect` event for the trace specification to compare.
    Expect {
        ran: Vec<String>,
        ok: bool,
        #[serde(default)]
        deps: Vec<Vec<String>>,
        #[serde(default)]
        recorded: Vec<usize>,
        /// requested names the model says the (reloaded) manifest does not have
        #[serde(default)]
        unknown: Vec<String>,
        /// number of commands the model says complete successfully (-1: no prediction)
        #[serde(default = "minus_one")]
        nok: i64,
    },
}

#[derive(Deserialize, Serialize, Clone, Debug, Default)]
pub struct Invoke {
    /// Arguments exactly as given to n2 (without argv[0]).
    pub argv: Vec<String>,
    /// The same, decoded, for the trace (the spec never parses argv).
    #[serde(default)]
    pub targets: Vec<String>,
    #[serde(default)]
    pub j: usize,
    #[serde(default)]
    pub k: usize,
    #[serde(default)]
    pub adopt: bool,
    /// `-C <cdir>` is among the arguments: n2 is started one level up.
    #[serde(default)]
    pub cdir: String,
    /// `-d explain` is among the arguments: n2 logs why each step it runs is out of date.
    #[serde(default)]
    pub explain: bool,
    #[serde(default = "default_file")]
    pub file: String,
    /// Declared step id (1-based, as string) -> "ok" | "fail" | "intr".
    #[serde(default)]
    pub outcomes: BTreeMap<String, String>,
    /// First output name of a step -> outcome (for invocations that reload the manifest, where
    /// step numbers change in between).
    #[serde(default)]
    pub outcomes_by_out: BTreeMap<String, String>,
    #[serde(default)]
    pub policy: Policy,
    /// Die while appending to the log: global write index (1-based over the
    /// scenario) and number of bytes that reach the file.
    #[serde(default)]
    pub crash: Option<Crash>,
    /// Die at the n-th wait (1-based) of this invocation, after writing the
    /// outputs of the listed running steps.
    #[serde(default)]
    pub kill: Option<Kill>,
}

fn minus_one() -> i64 {
    -1
}

fn default_file() -> String {
    "build.ninja".to_string()
}

#[derive(Deserialize, Serialize, Clone, Debug)]
pub struct Crash {
    pub idx: usize,
    pub kept: usize,
}

#[derive(Deserialize, Serialize, Clone, Debug)]
pub struct Kill {
    pub at: usize,
    #[serde(default)]
    pub writes: Vec<usize>,
}

#[derive(Deserialize, Serialize, Clone, Debug, Default)]
#[serde(tag = "kind", rename_all = "lowercase")]
pub enum Policy {
    /// Enumerate every completion order (DFS over the choices at each wait).
    All,
    /// Fixed choice prefix (index into the sorted running set), then index 0.
    Prefix { prefix: Vec<usize> },
    /// Finish the running step that comes first in this list.
    Prio { order: Vec<usize> },
    /// Pairs (v, s): v may not finish before s has finished; otherwise lowest id first.
    Hold { pairs: Vec<(usize, usize)> },
    /// Lowest step id first.
    #[default]
    First,
}

/// The parts of a declared step the executor needs.
#[derive(Clone, Debug, Default)]
pub struct StepEff {
    pub outs: Vec<String>,
    pub ins: Vec<String>,
    pub depfile: String,
    pub msvc: bool,
    pub kind: String,
    pub reads: Vec<String>,
    /// Canonical names of `reads` (the generator knows them; the spec never canonicalises).
    pub creads: Vec<String>,
    pub gen: String,
    pub output: String,
    pub failwrites: bool,
    /// Generator that rewrites the manifest only when its text changes.
    pub keepmain: bool,
    /// A reported (not declared) file the command rewrites while it runs.
    pub selfdisc: String,
    /// Raw depfile text to write instead of one rendered from `reads`.
    pub depfile_text: Option<String>,
    /// Size of the pieces in which the command's output reaches n2 (0: chosen by the executor).
    pub chunk: usize,
    /// When the command fails it removes the directories of its outputs if they are empty.
    pub cleandir: bool,
    /// Where a `deps = msvc` command prints its include notes relative to its other output:
    /// "first" (default), "last", "last-nonl" (the final note without a newline), "mid".
    pub notes_at: String,
}

pub fn strs(v: &Value) -> Vec<String> {
    v.as_array()
        .map(|a| {
            a.iter()
                .filter_map(|x| x.as_str().map(|s| s.to_string()))
                .collect()
        })
        .unwrap_or_default()
}

pub fn step_effs(g: &Value) -> Vec<StepEff> {
    let mut res = Vec::new();
    if let Some(steps) = g.get("steps").and_then(|s| s.as_array()) {
        for s in steps {
            let eff = s.get("eff").cloned().unwrap_or(Value::Null);
            res.push(StepEff {
                outs: strs(&s["outs"]),
                ins: strs(&s["ins"]),
                depfile: s["depfile"].as_str().unwrap_or("").to_string(),
                msvc: s["msvc"].as_bool().unwrap_or(false),
                kind: eff["kind"].as_str().unwrap_or("write").to_string(),
                reads: strs(&eff["reads"]),
                creads: if eff.get("creads").is_some() { strs(&eff["creads"]) } else { strs(&eff["reads"]) },
                gen: eff["gen"].as_str().unwrap_or("").to_string(),
                output: eff["output"].as_str().unwrap_or("").to_string(),
                failwrites: eff["failwrites"].as_bool().unwrap_or(false),
                keepmain: eff["keepmain"].as_bool().unwrap_or(false),
                selfdisc: eff["selfdisc"].as_str().unwrap_or("").to_string(),
                depfile_text: eff["depfile_text"].as_str().map(|s| s.to_string()),
                chunk: eff["chunk"].as_u64().unwrap_or(0) as usize,
                cleandir: eff["cleandir"].as_bool().unwrap_or(false),
                notes_at: eff["notes_at"].as_str().unwrap_or("first").to_string(),
            });
        }
    }
    res
}
