//! Replay of TLC-generated vectors into the real pure functions (filled in per kind).

pub fn cmd_vec(_args: &[String]) -> i32 {
    eprintln!("vec: not built yet");
    2
}
