//! Replay of TLC-generated vectors into the real functions of n2 (engine E5/E6).
//!
//!   n2v vec KIND --in FILE --out FILE
//!
//! FILE (in) holds one JSON object per line, exactly what the TLA+ module's Emit printed.
//! The output is one JSON summary: {"n":…, "bad":[{…first mismatches…}], "nbad":…, "counts":{…}}.
//! A panic inside n2 is data (caught and reported as a mismatch of kind "panic").

use serde_json::{json, Value};
use std::io::{BufRead, Write};
use std::panic::{catch_unwind, AssertUnwindSafe};

fn arg(args: &[String], name: &str) -> Option<String> {
    args.iter()
        .position(|a| a == name)
        .and_then(|i| args.get(i + 1).cloned())
}

fn panic_text(p: Box<dyn std::any::Any + Send>) -> String {
    if let Some(s) = p.downcast_ref::<&str>() {
        s.to_string()
    } else if let Some(s) = p.downcast_ref::<String>() {
        s.clone()
    } else {
        "panic".to_string()
    }
}

/// Characters standing for the byte widths 1..4.
fn width_char(w: u64) -> char {
    match w {
        1 => 'a',
        2 => 'é',
        3 => '€',
        _ => '𝄞',
    }
}

fn widths_to_string(v: &Value) -> String {
    v.as_array()
        .map(|a| a.iter().map(|w| width_char(w.as_u64().unwrap_or(1))).collect())
        .unwrap_or_default()
}

struct Tally {
    n: usize,
    nbad: usize,
    bad: Vec<Value>,
    counts: std::collections::BTreeMap<String, usize>,
}

impl Tally {
    fn bump(&mut self, k: &str) {
        *self.counts.entry(k.to_string()).or_insert(0) += 1;
    }
    fn bad(&mut self, v: Value) {
        self.nbad += 1;
        if self.bad.len() < 40 {
            self.bad.push(v);
        }
    }
}

fn vec_canon(v: &Value, t: &mut Tally) {
    let i = v["i"].as_str().unwrap_or("").to_string();
    let o = v["o"].as_str().unwrap_or("");
    let r = catch_unwind(AssertUnwindSafe(|| n2::canon::to_owned_canon_path(i.clone())));
    match r {
        Ok(got) => {
            if got != o {
                t.bad(json!({"kind":"mismatch","in":i,"expected":o,"got":got}));
            }
            if got != i {
                t.bump("changed");
            }
        }
        Err(p) => t.bad(json!({"kind":"panic","in":i,"msg":panic_text(p)})),
    }
}

fn vec_depfile(v: &Value, t: &mut Tally, dir: &std::path::Path) {
    let text = v["text"].as_str().unwrap_or("").to_string();
    let structured = v.get("deps").is_some();
    // through the same function the task thread uses: file on disk -> flattened list
    let path = dir.join("x.d");
    std::fs::write(&path, &text).expect("write depfile");
    let r = catch_unwind(AssertUnwindSafe(|| n2::verif::read_depfile(&path)));
    match r {
        Err(p) => t.bad(json!({"kind":"panic","text":text,"msg":panic_text(p)})),
        Ok(Err(e)) => {
            t.bump("rejected");
            let msg = String::from_utf8_lossy(format!("{}", e).as_bytes()).into_owned();
            if structured {
                t.bad(json!({"kind":"rejected","text":text,"err":msg}));
            } else if !msg.starts_with("parse error:") || !msg.contains("x.d:") || !msg.contains("^") {
                t.bad(json!({"kind":"diagnostic","text":text,"err":msg}));
            }
        }
        Ok(Ok(deps)) => {
            t.bump("accepted");
            if structured {
                let exp: Vec<String> = v["deps"]
                    .as_array()
                    .map(|a| a.iter().map(|x| x.as_str().unwrap_or("").to_string()).collect())
                    .unwrap_or_default();
                if v["dup"].as_bool().unwrap_or(false) {
                    t.bump("dup_target");
                }
                if v["nent"].as_u64().unwrap_or(0) > 1 {
                    t.bump("multi_entry");
                }
                if deps != exp {
                    t.bad(json!({"kind":"mismatch","text":text,"expected":exp,"got":deps,
                        "dup":v["dup"]}));
                }
            }
        }
    }
}

fn vec_render(v: &Value, t: &mut Tally) {
    if v.get("bar").is_some() {
        let c: Vec<usize> = v["c"].as_array().unwrap().iter().map(|x| x.as_u64().unwrap() as usize).collect();
        let n = v["n"].as_u64().unwrap() as usize;
        let exp = v["bar"].as_str().unwrap_or("");
        let counts = [c[0], c[1], c[2], c[3], c[4], c[5]];
        match catch_unwind(AssertUnwindSafe(|| n2::verif::progress_bar(counts, n))) {
            Ok(got) => {
                if got.len() != n {
                    t.bad(json!({"kind":"width","c":c,"n":n,"got":got}));
                } else if got != exp {
                    t.bad(json!({"kind":"mismatch","c":c,"n":n,"expected":exp,"got":got}));
                }
            }
            Err(p) => t.bad(json!({"kind":"panic","c":c,"n":n,"msg":panic_text(p)})),
        }
        return;
    }
    let m = widths_to_string(&v["m"]);
    if v.get("max").is_some() {
        let max = v["max"].as_u64().unwrap() as usize;
        let keep = v["keep"].as_u64().unwrap() as usize;
        let exp: String = m.chars().take(keep).collect();
        match catch_unwind(AssertUnwindSafe(|| n2::verif::truncate(&m, max).to_string())) {
            Ok(got) => {
                if got != exp {
                    t.bad(json!({"kind":"mismatch","m":m,"max":max,"expected":exp,"got":got}));
                }
                if got.len() < m.len() {
                    t.bump("cut");
                }
            }
            Err(p) => t.bad(json!({"kind":"panic","m":m,"max":max,"msg":panic_text(p)})),
        }
        return;
    }
    let secs = v["secs"].as_u64().unwrap() as usize;
    let cols = v["cols"].as_u64().unwrap() as usize;
    let keep = v["r"]["keep"].as_u64().unwrap() as usize;
    let dots = v["r"]["dots"].as_bool().unwrap();
    let note = v["r"]["note"].as_bool().unwrap();
    let mut exp: String = m.chars().take(keep).collect();
    if dots {
        exp.push_str("...");
        t.bump("cut");
    }
    if note {
        exp.push_str(&format!(" ({}s)", secs));
    }
    match catch_unwind(AssertUnwindSafe(|| n2::verif::task_message(&m, secs, cols))) {
        Ok(got) => {
            if got != exp {
                t.bad(json!({"kind":"mismatch","m":m,"secs":secs,"cols":cols,"expected":exp,"got":got}));
            }
        }
        Err(p) => t.bad(json!({"kind":"panic","m":m,"secs":secs,"cols":cols,"msg":panic_text(p)})),
    }
}

/// Loads a manifest (with included files) through load::read in a scratch directory and
/// compares the graph with the expected one.
fn vec_manifest(v: &Value, t: &mut Tally, dir: &std::path::Path) {
    let _ = std::fs::remove_dir_all(dir);
    std::fs::create_dir_all(dir).expect("scratch");
    std::env::set_current_dir(dir).expect("chdir");
    if let Some(files) = v["files"].as_object() {
        for (name, text) in files {
            if let Some(parent) = std::path::Path::new(name).parent() {
                let _ = std::fs::create_dir_all(parent);
            }
            let bytes: Vec<u8> = match text {
                Value::String(s) => s.clone().into_bytes(),
                Value::Array(a) => a.iter().map(|b| b.as_u64().unwrap_or(0) as u8).collect(),
                _ => vec![],
            };
            std::fs::write(name, bytes).expect("write manifest");
        }
    }
    let main = v["main"].as_str().unwrap_or("build.ninja").to_string();
    let r = catch_unwind(AssertUnwindSafe(|| n2::verif::load_read(&main)));
    let expect = &v["expect"];
    match r {
        Err(p) => t.bad(json!({"kind":"panic","id":v["id"],"files":v["files"],"msg":panic_text(p)})),
        Ok(Err(e)) => {
            t.bump("rejected");
            let msg = String::from_utf8_lossy(format!("{}", e).as_bytes()).into_owned();
            let (errk, _, _) = crate::exec::classify_error(&msg);
            if expect.is_null() {
                // robustness vector: any diagnostic is fine, but a syntax error must carry
                // file:line and a caret excerpt
                if errk == "parse" && !(msg.contains(':') && msg.contains("^\n")) {
                    t.bad(json!({"kind":"diagnostic","id":v["id"],"files":v["files"],"err":msg}));
                }
                return;
            }
            if expect["ok"].as_bool().unwrap_or(true) {
                t.bad(json!({"kind":"rejected","id":v["id"],"files":v["files"],"err":msg}));
            } else {
                let want = expect["errk"].as_str().unwrap_or("");
                if !want.is_empty() && want != errk {
                    t.bad(json!({"kind":"wrong-error","id":v["id"],"files":v["files"],"err":msg,"want":want}));
                }
                if let Some(subs) = expect["mentions"].as_array() {
                    for s in subs {
                        if !msg.contains(s.as_str().unwrap_or("")) {
                            t.bad(json!({"kind":"error-text","id":v["id"],"files":v["files"],"err":msg,"want":s}));
                        }
                    }
                }
            }
        }
        Ok(Ok(st)) => {
            t.bump("accepted");
            if expect.is_null() {
                return;
            }
            if !expect["ok"].as_bool().unwrap_or(true) {
                t.bad(json!({"kind":"accepted","id":v["id"],"files":v["files"],"want":expect}));
                return;
            }
            // compare step by step
            let steps = expect["steps"].as_array().cloned().unwrap_or_default();
            if steps.len() != st.builds.len() {
                t.bad(json!({"kind":"nsteps","id":v["id"],"files":v["files"],"got":st.builds.len(),"want":steps.len()}));
                return;
            }
            for (b, e) in st.builds.iter().zip(steps.iter()) {
                let nx = b.explicit_ins;
                let ni = b.implicit_ins;
                let no = b.order_only_ins;
                let got = json!({
                    "outs": b.outs, "nxo": b.explicit_outs,
                    "ins": b.ins.iter().take(nx + ni).collect::<Vec<_>>(), "nxi": nx,
                    "oo": b.ins.iter().skip(nx + ni).take(no).collect::<Vec<_>>(),
                    "val": b.ins.iter().skip(nx + ni + no).collect::<Vec<_>>(),
                    "phony": b.cmdline.is_none(),
                    "cmd": b.cmdline.clone().unwrap_or_default(),
                    "desc": b.desc.clone().unwrap_or_default(),
                    "depfile": b.depfile.clone().unwrap_or_default(),
                    "msvc": b.parse_showincludes,
                    "rsp": b.rspfile.as_ref().map(|r| r.0.clone()).unwrap_or_default(),
                    "rspc": b.rspfile.as_ref().map(|r| r.1.clone()).unwrap_or_default(),
                    "hasrsp": b.rspfile.is_some(),
                    "pool": b.pool.clone().unwrap_or_default(),
                });
                for (k, want) in e.as_object().unwrap() {
                    if k == "eff" || k == "spell" {
                        continue;
                    }
                    if got.get(k) != Some(want) {
                        t.bad(json!({"kind":"field","id":v["id"],"files":v["files"],"field":k,
                            "want":want,"got":got.get(k)}));
                    }
                }
            }
            if let Some(d) = expect.get("defaults") {
                if json!(st.defaults) != *d {
                    t.bad(json!({"kind":"defaults","id":v["id"],"files":v["files"],"want":d,"got":st.defaults}));
                }
            }
            if let Some(p) = expect.get("pools") {
                let got: Vec<Value> = st.pools.iter().map(|(n, d)| json!([n, d])).collect();
                if json!(got) != *p {
                    t.bad(json!({"kind":"pools","id":v["id"],"files":v["files"],"want":p,"got":got}));
                }
            }
        }
    }
}

pub fn cmd_vec(args: &[String]) -> i32 {
    let kind = args.first().cloned().unwrap_or_default();
    let inp = arg(args, "--in").expect("--in");
    let outp = arg(args, "--out").expect("--out");
    let root = std::path::PathBuf::from(
        arg(args, "--root").unwrap_or_else(|| format!("/dev/shm/n2v-vec-{}", std::process::id())),
    );
    std::fs::create_dir_all(&root).expect("scratch root");
    // n2 prints warnings on stdout while loading; keep them out of our way
    let capture = crate::exec::StdoutCapture::new(&root.join("stdout.cap"));
    std::panic::set_hook(Box::new(|_| {}));
    let f = std::io::BufReader::new(std::fs::File::open(&inp).expect("open vectors"));
    let mut t = Tally {
        n: 0,
        nbad: 0,
        bad: vec![],
        counts: Default::default(),
    };
    let scratch = root.join("w");
    std::fs::create_dir_all(&scratch).expect("scratch");
    // --skip N: do not execute the first N vectors; --mark FILE: record the index of the
    // vector being executed (used by the driver to find an input that aborts the process)
    let skip: usize = arg(args, "--skip").and_then(|s| s.parse().ok()).unwrap_or(0);
    let mark = arg(args, "--mark");
    let mut index = 0usize;
    // Watchdog: one vector that keeps the function busy for more than 20 s is a verdict
    // (the property says "terminates"): record which one and stop with status 4.
    let current = std::sync::Arc::new(std::sync::atomic::AtomicUsize::new(0));
    {
        let current = current.clone();
        let markpath = format!("{}.mark", outp);
        std::thread::spawn(move || {
            let mut last = 0usize;
            let mut since = std::time::Instant::now();
            loop {
                std::thread::sleep(std::time::Duration::from_millis(500));
                let now = current.load(std::sync::atomic::Ordering::Relaxed);
                if now != last {
                    last = now;
                    since = std::time::Instant::now();
                } else if now != 0 && since.elapsed().as_secs() >= 20 {
                    let _ = std::fs::write(&markpath, format!("{}", now));
                    std::process::exit(4);
                }
            }
        });
    }
    for line in f.lines() {
        let line = line.expect("read");
        if line.trim().is_empty() {
            continue;
        }
        let v: Value = match serde_json::from_str(&line) {
            Ok(v) => v,
            Err(e) => {
                eprintln!("bad vector: {}: {}", e, line);
                return 2;
            }
        };
        index += 1;
        if index <= skip {
            continue;
        }
        current.store(index, std::sync::atomic::Ordering::Relaxed);
        if let Some(m) = &mark {
            let _ = std::fs::write(m, format!("{}", index));
        }
        t.n += 1;
        match kind.as_str() {
            "canon" => vec_canon(&v, &mut t),
            "depfile" => vec_depfile(&v, &mut t, &scratch),
            "render" => vec_render(&v, &mut t),
            "manifest" => vec_manifest(&v, &mut t, &scratch),
            _ => {
                eprintln!("unknown vector kind {}", kind);
                return 2;
            }
        }
    }
    let _ = std::env::set_current_dir("/");
    let _ = std::fs::remove_dir_all(&root);
    let summary = json!({"kind":kind,"n":t.n,"nbad":t.nbad,"bad":t.bad,"counts":t.counts});
    let mut out = std::fs::File::create(&outp).expect("create out");
    let _ = writeln!(out, "{}", summary);
    drop(capture);
    0
}
