"""Driver for the n2 verification checks: builds the harness against /repo's working tree,
runs engines (scenario generation -> real n2 in-process -> TLC trace validation), runs the TLC
model-checking configurations, attributes verdicts to properties, writes evidence.

Exit codes of ./check: 0 property held on everything explored (known findings are printed),
1 with a VIOLATION line, 2 tool error / timeout / specification drift in conformance mode.
"""
import fcntl, hashlib, json, os, re, shutil, subprocess, sys, time

# The framework is relocatable: everything is found relative to this file (so that a snapshot of
# the committed tree, e.g. under `vp run`, uses its own specification, generators and caches).
VERIF = os.path.dirname(os.path.dirname(os.path.realpath(__file__)))
# The registered checks always run against /repo.  VERIF_REPO / VERIF_SCRATCH exist only so
# that tools/seedrun.sh can try the checks on a scratch worktree of /repo (a seeded change)
# without touching /repo: the harness crate is copied into the scratch directory with its
# path dependency rewritten, and caches, work files, replays and evidence go there too.
REPO = os.environ.get("VERIF_REPO", "/repo")
SCRATCH = os.environ.get("VERIF_SCRATCH", "") if REPO != "/repo" else ""
SPEC = VERIF + "/spec"
HARNESS = (SCRATCH or VERIF) + "/harness"
N2V = HARNESS + "/target/release/n2v"
CACHE = (SCRATCH or VERIF) + "/.cache"
WORK = (SCRATCH or VERIF) + "/work"
REPLAYS = (SCRATCH or VERIF) + "/replays"
EVIDENCE = (SCRATCH or VERIF) + "/evidence"
if REPO != "/repo" and not SCRATCH:
    raise SystemExit("VERIF_REPO needs VERIF_SCRATCH")

def prepare_scratch_harness():
    """Copy of the harness crate that depends on the scratch worktree instead of /repo."""
    src = VERIF + "/harness"
    os.makedirs(HARNESS + "/src", exist_ok=True)
    os.makedirs(HARNESS + "/.cargo", exist_ok=True)
    for f in os.listdir(src + "/src"):
        shutil.copy(src + "/src/" + f, HARNESS + "/src/" + f)
    shutil.copy(src + "/.cargo/config.toml", HARNESS + "/.cargo/config.toml")
    t = open(src + "/Cargo.toml").read().replace('path = "/repo"', 'path = "%s"' % REPO)
    open(HARNESS + "/Cargo.toml", "w").write(t)
    # model-checking results depend on the specification only: share them
    os.makedirs(CACHE, exist_ok=True)
    if os.path.isdir(VERIF + "/.cache"):
        for f in os.listdir(VERIF + "/.cache"):
            if f.startswith("mc-") and f.endswith(".json") and not os.path.exists(CACHE + "/" + f):
                shutil.copy(VERIF + "/.cache/" + f, CACHE + "/" + f)
ENGINE_VERSION = "1"

class ToolError(Exception):
    pass

def limit_memory(gb):
    """preexec_fn: address-space limit for a harness process, so that code under test that
    allocates without bound fails inside that process instead of taking the machine down."""
    import resource
    def fn():
        b = int(gb * 1024 * 1024 * 1024)
        resource.setrlimit(resource.RLIMIT_AS, (b, b))
    return fn

def log(*a):
    print(*a, file=sys.stderr, flush=True)

def sha(s):
    return hashlib.sha1(s.encode() if isinstance(s, str) else s).hexdigest()

def tree_key(root, subdirs, files=()):
    h = hashlib.sha1()
    paths = []
    for sd in subdirs:
        for dp, dn, fn in os.walk(os.path.join(root, sd)):
            dn.sort()
            for f in sorted(fn):
                paths.append(os.path.join(dp, f))
    for f in files:
        paths.append(os.path.join(root, f))
    for p in paths:
        try:
            with open(p, "rb") as fh:
                h.update(p.encode()); h.update(b"\0"); h.update(fh.read()); h.update(b"\0")
        except OSError:
            pass
    return h.hexdigest()[:16]

def repo_key():
    return tree_key(REPO, ["src"], ["Cargo.toml", "Cargo.lock"])

def spec_key():
    return tree_key(VERIF, ["spec", "lib", "harness/src"], ["harness/Cargo.toml", "check"])

class Lock:
    def __init__(self, name):
        os.makedirs(CACHE, exist_ok=True)
        self.path = os.path.join(CACHE, name + ".lock")
    def __enter__(self):
        self.f = open(self.path, "w")
        fcntl.flock(self.f, fcntl.LOCK_EX)
        return self
    def __exit__(self, *a):
        fcntl.flock(self.f, fcntl.LOCK_UN)
        self.f.close()

def build_harness():
    """cargo build of the harness against /repo's current working tree (hooks on)."""
    with Lock("cargo"):
        if SCRATCH:
            prepare_scratch_harness()
        lock_src = os.path.join(REPO, "Cargo.lock")
        lock_dst = os.path.join(HARNESS, "Cargo.lock")
        if not os.path.exists(lock_dst):
            shutil.copy(lock_src, lock_dst)
        env = dict(os.environ, CARGO_NET_OFFLINE="true")
        t = time.time()
        p = subprocess.run(["cargo", "build", "--release", "--offline"], cwd=HARNESS, env=env,
                           stdout=subprocess.PIPE, stderr=subprocess.STDOUT, text=True)
        if p.returncode != 0:
            # a stale lock file is the usual reason after a Cargo.toml change in /repo
            shutil.copy(lock_src, lock_dst)
            p = subprocess.run(["cargo", "build", "--release", "--offline"], cwd=HARNESS, env=env,
                               stdout=subprocess.PIPE, stderr=subprocess.STDOUT, text=True)
        if p.returncode != 0:
            raise ToolError("harness build failed:\n" + p.stdout[-4000:])
        log("[build] harness ok in %.1fs" % (time.time() - t))
    return N2V

def build_n2_binary():
    """The guard-off n2 binary built from /repo's working tree (black-box engine)."""
    with Lock("cargo-n2"):
        tgt = os.path.join(WORK, "n2-target")
        env = dict(os.environ, CARGO_NET_OFFLINE="true", CARGO_TARGET_DIR=tgt)
        p = subprocess.run(["cargo", "build", "--release", "--offline", "--bin", "n2"], cwd=REPO,
                           env=env, stdout=subprocess.PIPE, stderr=subprocess.STDOUT, text=True)
        if p.returncode != 0:
            raise ToolError("n2 build failed:\n" + p.stdout[-4000:])
    return os.path.join(tgt, "release", "n2")

# ---------------------------------------------------------------------------
# TLC

def tlc_env(xmx="3g", deque=False):
    opts = "-Xss1g -Xmx%s" % xmx
    if deque:
        opts += " -Dtlc2.tool.queue.IStateQueue=StateDeque"
    return dict(os.environ, JAVA_TOOL_OPTIONS=opts)

import itertools
_meta_seq = itertools.count()

def run_tlc(module, cfg, workers=1, env_extra=None, timeout=1800, xmx="3g", extra_args=()):
    if os.environ.get("VERIF_TIER_EFFECTIVE") == "thorough":
        timeout = max(timeout, 5 * 3600)      # the thorough tier is allowed to take its time
    os.makedirs(WORK + "/tlc", exist_ok=True)
    meta = "%s/tlc/m%d_%d_%d" % (WORK, os.getpid(), int(time.time() * 1000) % 100000000, next(_meta_seq))
    env = tlc_env(xmx)
    if env_extra:
        env.update(env_extra)
    cmd = ["timeout", str(timeout), "tlc", "-workers", str(workers), "-metadir", meta, "-cleanup",
           "-noGenerateSpecTE", "-config", cfg] + list(extra_args) + [module]
    t = time.time()
    p = subprocess.run(cmd, cwd=SPEC, env=env, stdout=subprocess.PIPE, stderr=subprocess.STDOUT,
                       text=True)
    shutil.rmtree(meta, ignore_errors=True)
    return p.returncode, p.stdout, time.time() - t

def parse_mc(out):
    m = re.search(r"(\d+) states generated, (\d+) distinct states found", out)
    ok = "No error has been found" in out
    return {"ok": ok, "generated": int(m.group(1)) if m else 0, "distinct": int(m.group(2)) if m else 0}

def mc_run(name, module, cfg, workers=6, timeout=3000, xmx="8g"):
    """Model-check one configuration; cached by specification content."""
    key = sha(name + module_key(module, cfg) + ENGINE_VERSION)[:16]
    path = os.path.join(CACHE, "mc-%s-%s.json" % (name, key))
    with Lock("mc-" + name):
        if os.path.exists(path):
            r = json.load(open(path)); r["cached"] = True
            return r
        rc, out, wall = run_tlc(module, cfg, workers=workers, timeout=timeout, xmx=xmx)
        r = parse_mc(out)
        r.update({"name": name, "cfg": os.path.basename(cfg), "wall_s": round(wall, 1), "rc": rc,
                  "cached": False})
        if not r["ok"]:
            r["tail"] = out[-3000:]
            raise ToolError("model checking %s did not pass (rc=%d):\n%s" % (name, rc, out[-3000:]))
        json.dump(r, open(path, "w"))
        return r

def apalache_run(name, mc_module, timeout=3000):
    """Inductive check of the bookkeeping lemma (spec/apalache/SchedInd.tla over SchedCore) with
    Apalache: base case (--length=0 from Init) and inductive step (--length=1 from IndInit).
    Cached by the content of the modules."""
    d = os.path.join(SPEC, "apalache")
    h = hashlib.sha1()
    for f in ("SchedInd.tla", mc_module, "../SchedCore.tla"):
        h.update(open(os.path.join(d, f), "rb").read())
    path = os.path.join(CACHE, "apalache-%s-%s.json" % (name, h.hexdigest()[:16]))
    with Lock("apalache-" + name):
        if os.path.exists(path):
            r = json.load(open(path)); r["cached"] = True
            return r
        out_dir = os.path.join(WORK, "apalache-%d" % os.getpid())
        res = {"name": name, "tool": "apalache-mc", "module": mc_module, "cached": False, "steps": []}
        t0 = time.time()
        for what, args in (("base", ["--init=Init", "--length=0"]), ("step", ["--init=IndInit", "--length=1"])):
            cmd = ["timeout", str(timeout), "apalache-mc", "check"] + args + \
                  ["--next=Next", "--inv=IndInv", "--cinit=CInit", "--out-dir=" + out_dir, mc_module]
            p = subprocess.run(cmd, cwd=d, stdout=subprocess.PIPE, stderr=subprocess.STDOUT, text=True)
            ok = "The outcome is: NoError" in p.stdout
            res["steps"].append({"what": what, "ok": ok, "rc": p.returncode})
            if not ok:
                shutil.rmtree(out_dir, ignore_errors=True)
                raise ToolError("apalache %s (%s) did not pass (rc=%d):\n%s" % (mc_module, what, p.returncode, p.stdout[-2500:]))
        shutil.rmtree(out_dir, ignore_errors=True)
        res["wall_s"] = round(time.time() - t0, 1)
        json.dump(res, open(path, "w"))
        return res

def module_key(module, cfg):
    """Hash of a module, its configuration and the local modules it extends (transitively)."""
    seen = []; todo = [os.path.basename(module)]
    while todo:
        m = todo.pop()
        if m in seen:
            continue
        p = os.path.join(SPEC, m)
        if not os.path.exists(p):
            continue
        seen.append(m)
        text = open(p).read()
        for mm in re.findall(r"^EXTENDS\s+(.*)$", text, re.M):
            for nm in mm.split(","):
                todo.append(nm.strip() + ".tla")
    h = hashlib.sha1()
    for m in sorted(seen):
        h.update(open(os.path.join(SPEC, m), "rb").read())
    h.update(open(cfg, "rb").read())
    return h.hexdigest()

_spec_files_key = None
def spec_files_key():
    global _spec_files_key
    if _spec_files_key is None:
        _spec_files_key = tree_key(VERIF, ["spec"])
    return _spec_files_key

def parse_verdict(out):
    m = re.search(r'<<"VERDICT", "(.*)">>', out)
    if not m:
        return None
    s = m.group(1).replace('\\"', '"').replace("\\\\", "\\")
    return json.loads(s)

def validate_trace(trace_path, timeout=1800):
    rc, out, wall = run_tlc(SPEC + "/TraceObs.tla", SPEC + "/TraceObs.cfg", workers=1,
                            env_extra={"TRACE": trace_path}, timeout=timeout, xmx="4g")
    v = parse_verdict(out)
    if v is None or rc != 0 or "No error has been found" not in out:
        m = re.search(r"The depth of the complete state graph search is (\d+)", out)
        raise ToolError("trace validation failed on %s (rc=%d, depth=%s):\n%s"
                        % (trace_path, rc, m.group(1) if m else "?", out[-2500:]))
    v["wall_s"] = wall
    return v

# ---------------------------------------------------------------------------
# Engines

def run_harness_shards(scn_path, out_prefix, shards, cap, timeout=1500, event_budget=600000):
    """Runs the scenario file in `shards` harness processes.  A process that stops with
    status 3 found n2 blocked forever in some scenario (recorded in <trace>.hang); it is
    restarted after that scenario."""
    def start(i, part, resume):
        out = "%s.%d.p%d.trace" % (out_prefix, i, part)
        root = "/dev/shm/n2v-%d-%d" % (os.getpid(), i)
        cmd = [N2V, "run", "--scn", scn_path, "--out", out, "--root", root, "--cap", str(cap),
               "--shard", "%d/%d" % (i, shards), "--progress", out + ".progress",
               "--event-budget", str(event_budget)]
        if resume:
            cmd += ["--resume-after", resume]
        return out, root, subprocess.Popen(cmd, stdout=subprocess.PIPE, stderr=subprocess.PIPE, text=True,
                                           preexec_fn=limit_memory(12))
    active = {i: (0,) + start(i, 0, None) for i in range(shards)}
    combined = {i: "%s.%d.trace" % (out_prefix, i) for i in range(shards)}
    for i in combined:
        open(combined[i], "w").close()
    res = {i: {"trace": combined[i], "stats": {"scenarios": 0, "runs": 0, "events": 0, "truncated": 0},
               "hangs": 0} for i in range(shards)}
    deadline = time.time() + timeout
    while active:
        for i in list(active):
            part, out, root, p = active[i]
            try:
                so, se = p.communicate(timeout=max(1, deadline - time.time()) if len(active) == 1 else 0.2)
            except subprocess.TimeoutExpired:
                if time.time() > deadline:
                    p.kill()
                    shutil.rmtree(root, ignore_errors=True)
                    raise ToolError("harness shard %d timed out" % i)
                continue
            shutil.rmtree(root, ignore_errors=True)
            del active[i]
            with open(combined[i], "a") as cf:
                for f in (out, out + ".hang"):
                    if os.path.exists(f):
                        with open(f) as fh:
                            shutil.copyfileobj(fh, cf)
                        os.remove(f)
            if p.returncode == 0:
                st = json.loads(so.strip().splitlines()[-1])
                for k in res[i]["stats"]:
                    res[i]["stats"][k] += st[k]
            elif p.returncode == 3 and res[i]["hangs"] < 25:
                prog = open(out + ".progress").read().split("\n")[0]
                res[i]["hangs"] += 1
                log("[harness] n2 blocked forever in scenario %s; resuming after it" % prog)
                active[i] = (part + 1,) + start(i, part + 1, prog)
            else:
                prog = open(out + ".progress").read().split("\n")[0] if os.path.exists(out + ".progress") else "?"
                raise ToolError("harness shard %d failed rc=%s in scenario %s:\n%s" % (i, p.returncode, prog, se[-2000:]))
    out = []
    for i in range(shards):
        r = res[i]
        # events/runs of interrupted processes are not in their stats: count from the file
        n_ev = 0; n_runs = 0
        with open(r["trace"]) as f:
            for line in f:
                n_ev += 1
                if line.startswith('{"e":"scn"') or '"e":"scn"' in line[:40]:
                    n_runs += 1
        r["stats"]["events"] = n_ev
        r["stats"]["runs"] = n_runs
        out.append(r)
    return out

def split_trace(path, max_lines=120000):
    """Splits a trace file at scenario boundaries into chunks of at most max_lines events."""
    chunks = []
    out = None; n = 0; k = 0
    with open(path) as f:
        for line in f:
            if ('"e":"scn"' in line[:40]) and (out is None or n >= max_lines):
                if out:
                    out.close()
                cp = "%s.c%d" % (path, k); k += 1
                out = open(cp, "w"); n = 0
                chunks.append(cp)
            if out is None:
                cp = "%s.c%d" % (path, k); k += 1
                out = open(cp, "w"); chunks.append(cp)
            out.write(line); n += 1
    if out:
        out.close()
    return chunks

def index_trace(path):
    """(line number (1-based) of each scn event, run id)."""
    idx = []
    with open(path) as f:
        for n, line in enumerate(f, 1):
            if '"e":"scn"' in line[:40] or line.startswith('{"e":"scn"'):
                idx.append((n, json.loads(line)["id"]))
    return idx

def scn_of_line(idx, line):
    lo, hi = 0, len(idx) - 1
    ans = None
    while lo <= hi:
        mid = (lo + hi) // 2
        if idx[mid][0] <= line:
            ans = idx[mid]; lo = mid + 1
        else:
            hi = mid - 1
    return ans

def run_trace_engine(name, gen_fn, tier, seed, shards=6, cap=None, keep_traces=False):
    """Generate scenarios, execute them against the real code, validate every trace."""
    key = sha("|".join([name, tier, str(seed), repo_key(), spec_key(), ENGINE_VERSION]))[:16]
    path = os.path.join(CACHE, "eng-%s-%s.json" % (name, key))
    with Lock("eng-" + name):
        if os.path.exists(path):
            r = json.load(open(path)); r["cached"] = True
            return r
        t0 = time.time()
        build_harness()
        wdir = os.path.join(WORK, "%s-%s" % (name, key))
        shutil.rmtree(wdir, ignore_errors=True)
        os.makedirs(wdir)
        scns = gen_fn(seed, tier)
        gen_info = gen_fn.info() if hasattr(gen_fn, "info") else None
        scn_path = os.path.join(wdir, "scenarios.ndjson")
        by_id = {}
        with open(scn_path, "w") as f:
            for s in scns:
                f.write(json.dumps(s, separators=(",", ":")) + "\n")
                by_id[s["id"]] = s
        if cap is None:
            cap = 48 if tier == "quick" else 400
        log("[%s] %d scenarios; executing against /repo (hooks on)..." % (name, len(scns)))
        t1 = time.time()
        shard_res = run_harness_shards(scn_path, os.path.join(wdir, "t"), shards, cap,
                                       timeout=1500 if tier == "quick" else 6 * 3600,
                                       event_budget=600000 if tier == "quick" else 8000000)
        t_exec = time.time() - t1
        stats = {"scenarios": 0, "runs": 0, "events": 0, "truncated": 0}
        problems = []
        for sr in shard_res:
            for k in stats:
                stats[k] += sr["stats"][k]
        # validate in parallel
        log("[%s] %d runs, %d events in %.1fs; validating with TLC..." %
            (name, stats["runs"], stats["events"], t_exec))
        t2 = time.time()
        import concurrent.futures as cf
        viol = []; cov = {}; traces = 0
        samples = []
        def one(sr):
            return sr, validate_trace(sr["trace"])
        chunks = []
        for sr in shard_res:
            if sr["stats"]["events"] > 0:
                for cp in split_trace(sr["trace"]):
                    chunks.append({"trace": cp})
        with cf.ThreadPoolExecutor(max_workers=8) as ex:
            futs = [ex.submit(one, sr) for sr in chunks]
            for fu in futs:
                sr, v = fu.result()
                idx = index_trace(sr["trace"])
                traces += len(idx)
                for k, n in v["cov"].items():
                    cov[k] = cov.get(k, 0) + n
                for (prop, tag, line) in v["viol"]:
                    s = scn_of_line(idx, line)
                    viol.append({"prop": prop, "tag": tag, "line": line, "run": s[1] if s else "?",
                                 "trace": sr["trace"], "start": s[0] if s else 0})
                if not samples and idx:
                    with open(sr["trace"]) as f:
                        lines = [next(f) for _ in range(min(40, idx[1][0] - 1 if len(idx) > 1 else 40))]
                    samples.append({"run": idx[0][1], "events": [json.loads(x) for x in lines][:40]})
        t_val = time.time() - t2
        # a hang or crash of the harness process is data about the code under test
        for pr in problems:
            scn_line = (pr.get("hang") or pr.get("crash") or "").split("\n")
            viol.append({"prop": "C06", "tag": "hang" if "hang" in pr else "harness-crash",
                         "line": 0, "run": scn_line[0] if scn_line else "?", "trace": pr["trace"],
                         "start": 0, "detail": pr.get("stderr", "")})
        # replay material for each violating run (first occurrence per prop/tag/scenario)
        seen = set()
        for v in viol:
            base = v["run"].split("#")[0]
            k = (v["prop"], v["tag"], base)
            v["scn"] = base
            v["fam"] = by_id.get(base, {}).get("fam", "")
            if k in seen:
                continue
            seen.add(k)
            v["scenario"] = by_id.get(base)
            if v["start"]:
                with open(v["trace"]) as f:
                    ev = []
                    for n, line in enumerate(f, 1):
                        if n >= v["start"] and n <= v["line"] + 3:
                            ev.append(line.rstrip("\n"))
                        if n > v["line"] + 3:
                            break
                v["excerpt"] = ev[-60:]
        r = {"engine": name, "tier": tier, "seed": seed, "repo_key": repo_key(), "stats": stats,
             "traces": traces, "viol": viol, "cov": cov, "samples": samples,
             "wall_s": round(time.time() - t0, 1), "exec_s": round(t_exec, 1),
             "validate_s": round(t_val, 1), "cached": False, "gen_info": gen_info}
        json.dump(r, open(path, "w"))
        if not keep_traces:
            shutil.rmtree(wdir, ignore_errors=True)
        return r

# ---------------------------------------------------------------------------
# Findings, evidence, verdict

def load_known():
    p = os.path.join(VERIF, "known_findings.json")
    if not os.path.exists(p):
        return []
    return json.load(open(p)).get("findings", [])

def match_known(v, known):
    for k in known:
        if k.get("status") != "known" or k.get("property") != v["prop"]:
            continue
        m = k.get("match", {})
        ok = True
        for key, val in m.items():
            if key == "scn_prefix":
                ok = ok and v.get("scn", "").startswith(val)
            elif key == "tags":
                ok = ok and v.get("tag") in val
            else:
                ok = ok and v.get(key) == val
        if ok:
            return k
    return None

def write_replay(prop, v):
    os.makedirs(REPLAYS, exist_ok=True)
    digest = sha(json.dumps([v.get("scn"), v.get("tag"), v.get("run")]))[:12]
    path = os.path.join(REPLAYS, "%s-%s.json" % (prop, digest))
    body = {"property": prop, "tag": v.get("tag"), "run": v.get("run"), "fam": v.get("fam"),
            "event_index_in_run": (v.get("line", 0) - v.get("start", 0) + 1) if v.get("start") else None,
            "scenario": v.get("scenario"), "excerpt": v.get("excerpt"), "detail": v.get("detail"),
            "kind": v.get("kind", "trace")}
    json.dump(body, open(path, "w"), indent=1)
    return path

def write_evidence(prop, tier, seed, level, coverage, assumptions, wall, violations):
    os.makedirs(EVIDENCE, exist_ok=True)
    ev = {"property_id": prop, "tier": tier, "seed": seed, "level": level, "coverage": coverage,
          "assumptions": assumptions, "wall_s": round(wall, 1), "violations": violations}
    tmp = os.path.join(EVIDENCE, ".%s.json.tmp" % prop)
    json.dump(ev, open(tmp, "w"), indent=1)
    os.replace(tmp, os.path.join(EVIDENCE, "%s.json" % prop))

def conclude(prop, viols):
    """Prints KNOWN-FINDING / VIOLATION lines; returns exit code."""
    known = load_known()
    new = []
    reported = set()
    for v in viols:
        k = match_known(v, known)
        if k:
            key = k.get("id", k.get("what"))
            if key not in reported:
                reported.add(key)
                print("KNOWN-FINDING: property=%s %s" % (prop, k.get("what")))
        else:
            new.append(v)
    if not new:
        return 0
    seen = set()
    for v in new:
        key = (v.get("tag"), v.get("scn"))
        if key in seen:
            continue
        seen.add(key)
        if "scenario" not in v and v.get("kind", "trace") == "trace":
            continue
        path = write_replay(prop, v)
        print("VIOLATION property=%s replay=%s" % (prop, path))
        log("  [%s] guard '%s' failed in run %s (event %s)" % (prop, v.get("tag"), v.get("run"), v.get("line")))
        if len(seen) >= 5:
            break
    if not seen:
        v = new[0]
        path = write_replay(prop, v)
        print("VIOLATION property=%s replay=%s" % (prop, path))
    return 1

# ---------------------------------------------------------------------------
# Vector engines: TLC enumerates a bounded input space of a pure front-end function from its
# TLA+ transcription, checks the laws on the specification, and prints (input, expected)
# vectors; the harness replays them into the real function.

def tla_unescape(s):
    out = []; i = 0; n = len(s)
    while i < n:
        c = s[i]
        if c == "\\" and i + 1 < n and s[i + 1] in ('"', "\\"):
            out.append(s[i + 1]); i += 2
        else:
            out.append(c); i += 1
    return "".join(out)

def tlc_vectors(name, module, cfg, workers=4, timeout=3000, xmx="6g"):
    """Runs TLC on a vector-emitting configuration; returns (mc stats, list of vector dicts)."""
    rc, out, wall = run_tlc(os.path.join(SPEC, module), os.path.join(SPEC, cfg), workers=workers,
                            timeout=timeout, xmx=xmx)
    r = parse_mc(out)
    r.update({"name": name, "cfg": cfg, "wall_s": round(wall, 1), "rc": rc, "cached": False})
    if not r["ok"]:
        raise ToolError("TLC on %s/%s did not pass (rc=%d):\n%s" % (module, cfg, rc,
                        "\n".join(l for l in out.splitlines() if not l.startswith('<<"VEC"'))[-3000:]))
    vecs = []
    for line in out.splitlines():
        if line.startswith('<<"VEC", "') and line.endswith('">>'):
            vecs.append(json.loads(tla_unescape(line[10:-3])))
    return r, vecs

def run_vectors(kind, vecs, wdir, tag):
    """Replays vectors; an input that makes the process abort (a non-unwinding panic such as
    a violated unsafe precondition, a stack overflow, a signal) is located and reported as a
    mismatch of kind 'abort', and the replay continues after it."""
    inp = os.path.join(wdir, "%s.vec.ndjson" % tag)
    outp = os.path.join(wdir, "%s.vec.out" % tag)
    with open(inp, "w") as f:
        for v in vecs:
            f.write(json.dumps(v, separators=(",", ":")) + "\n")
    total = {"kind": kind, "n": 0, "nbad": 0, "bad": [], "counts": {}}
    skip = 0
    aborts = 0
    while True:
        cmd = [N2V, "vec", kind, "--in", inp, "--out", outp, "--skip", str(skip),
               "--root", "/dev/shm/n2v-vec-%d-%s" % (os.getpid(), tag)]
        mark = outp + ".mark"
        if os.path.exists(mark):
            os.remove(mark)
        try:
            p = subprocess.run(cmd, stdout=subprocess.PIPE, stderr=subprocess.PIPE, text=True, timeout=3000,
                               preexec_fn=limit_memory(6))
        except subprocess.TimeoutExpired:
            p = None
        if p is not None and p.returncode == 4 and os.path.exists(mark):
            # the watchdog found a vector that does not terminate
            idx = int(open(mark).read().strip())
            aborts += 1
            total["n"] += idx - skip; total["nbad"] += 1
            total["bad"].append({"kind": "timeout", "index": idx, "vector": vecs[idx - 1], "stderr": ""})
            skip = idx
            if aborts >= 8:
                return total
            continue
        if p is not None and p.returncode == 0:
            s = json.load(open(outp, errors="replace"))
            total["n"] += s["n"]; total["nbad"] += s["nbad"]; total["bad"] += s["bad"]
            for k, n in s["counts"].items():
                total["counts"][k] = total["counts"].get(k, 0) + n
            return total
        if p is not None and p.returncode == 2:
            raise ToolError("n2v vec %s failed: %s" % (kind, p.stderr[-2000:]))
        # abort / hang: find the culprit with --mark (slower), then continue behind it
        try:
            p2 = subprocess.run(cmd + ["--mark", mark], stdout=subprocess.PIPE, stderr=subprocess.PIPE,
                                text=True, timeout=3000, preexec_fn=limit_memory(6))
            rc2 = p2.returncode; err2 = p2.stderr
        except subprocess.TimeoutExpired:
            rc2 = -999; err2 = "timeout"
        if rc2 == 0:
            raise ToolError("n2v vec %s aborted but not reproducibly" % kind)
        idx = int(open(mark).read().strip())
        aborts += 1
        total["n"] += idx - skip
        total["nbad"] += 1
        total["bad"].append({"kind": "abort" if rc2 != -999 else "timeout", "index": idx, "vector": vecs[idx - 1],
                             "stderr": err2[-600:]})
        skip = idx
        if aborts >= 8:
            return total

def run_vector_engine(name, fn, tier, seed):
    """fn(tier, seed, wdir) -> dict(mc=[...], results=[(family, summary)], viol=[...], samples=[...])"""
    key = sha("|".join([name, tier, str(seed), repo_key(), spec_key(), ENGINE_VERSION]))[:16]
    path = os.path.join(CACHE, "vec-%s-%s.json" % (name, key))
    with Lock("vec-" + name):
        if os.path.exists(path):
            r = json.load(open(path)); r["cached"] = True
            return r
        t0 = time.time()
        build_harness()
        wdir = os.path.join(WORK, "%s-%s" % (name, key))
        shutil.rmtree(wdir, ignore_errors=True)
        os.makedirs(wdir)
        r = fn(tier, seed, wdir)
        r.update({"engine": name, "tier": tier, "seed": seed, "wall_s": round(time.time() - t0, 1),
                  "cached": False})
        json.dump(r, open(path, "w"))
        shutil.rmtree(wdir, ignore_errors=True)
        return r
