"""Black-box engine (E7): the real n2 binary (built from /repo's working tree, guard off)
running real /bin/sh commands that record what they observe.  The observations become an
event trace that TLC validates against spec/ExecObs.tla.  No timing assumptions: ordering
between commands, where needed, is forced with marker files.
"""
import json, os, re, shutil, subprocess, time, random, pty, fcntl, termios, struct, select
import driver as D

WAIT = 'i=0; while [ ! -f %s ]; do sleep 0.01; i=$((i+1)); [ $i -gt 3000 ] && exit 97; done'

def esc(v):
    """A literal string as a ninja value."""
    return v.replace("$", "$$")

PRELUDE = ("tr '\\0' '\\n' < /proc/$$/cmdline > obs/%(s)s.argv; pwd > obs/%(s)s.cwd; "
           "if read x; then echo DATA; else echo EOF; fi > obs/%(s)s.stdin; "
           "readlink /proc/$$/fd/0 > obs/%(s)s.fd0; ")
# The listing is made from a subshell whose output is redirected: the shell forks first and
# redirects in the child, so the descriptor table of the command's own shell ($$) is listed as
# n2 made it.  (`ls ... | cat > f` showed, about once in 200 runs and more often on a loaded
# machine, the pipe the shell had just made for that very pipeline; `ls ... > f` lists the
# redirection itself, which dash performs in the parent.)
PROBE = "( ls -l /proc/$$/fd ) > obs/%(s)s.fds; "

class Step:
    def __init__(self, name, body, outs=None, ins=(), oo=(), probe=False, rsp=None, want="ok",
                 note="", ntok=0, tail=0, pool="", desc=None, msvc=False, depfile="", err_tok=False, hide=False):
        self.name = name
        self.outs = outs if outs is not None else [name + ".out"]
        self.ins = list(ins); self.oo = list(oo)
        self.probe = probe; self.rsp = rsp; self.want = want; self.note = note
        self.ntok = ntok; self.tail = tail; self.pool = pool; self.msvc = msvc; self.depfile = depfile
        self.hide = hide
        self.desc = desc if desc is not None else "STEP-%s" % name
        pre = PRELUDE % {"s": name}
        if probe:
            pre += PROBE % {"s": name}
        dirs = sorted({os.path.dirname(o) for o in self.outs if os.path.dirname(o)})
        chk = "".join("test -d %s && echo yes >> obs/%s.dir; " % (d, name) for d in dirs)
        if rsp:
            chk += "cat %s > obs/%s.rsp; " % (rsp[0], name)
        self.cmd = pre + chk + body        # the evaluated command string n2 must pass to sh

RAWMARK = b"\xff\xfe\xc3"      # bytes that are not UTF-8 (what a command prints is bytes, not text)

def token_payload(step_no, ntok, tail, raw=False):
    """ntok lines of 16 bytes '@NN:SSSSSSS:xxx\\n' plus `tail` bytes '#' without newline; with
    raw, the filler xxx is three bytes that are not valid UTF-8.  Returns bytes."""
    fill = RAWMARK if raw else b"xxx"
    lines = [b"@%02d:%07d:" % (step_no, i) + fill + b"\n" for i in range(ntok)]
    return b"".join(lines) + b"#" * tail

def manifest(steps, pools=(), builddir=None):
    out = []
    if builddir:
        out.append("builddir = %s" % builddir)
    for p, d in pools:
        out += ["pool %s" % p, "  depth = %d" % d]
    for i, s in enumerate(steps):
        out.append("rule r%d" % i)
        out.append("  command = %s" % esc(s.cmd))
        out.append("  description = %s" % s.desc)
        if s.rsp:
            out.append("  rspfile = %s" % s.rsp[0])
            out.append("  rspfile_content = %s" % esc(s.rsp[1]))
        if s.pool:
            out.append("  pool = %s" % s.pool)
        if s.msvc:
            out.append("  deps = msvc")
        if s.depfile:
            out.append("  depfile = %s" % s.depfile)
        if s.hide:
            out.append("  hide_success = 1")
        b = "build %s: r%d %s" % (" ".join(s.outs), i, " ".join(s.ins))
        if s.oo:
            b += " || " + " ".join(s.oo)
        out.append(b)
    return "\n".join(out) + "\n"

def run_n2(n2, cwd, args, timeout=120, use_pty=None, stack_mb=None):
    if use_pty is None:
        pre = None
        if stack_mb:
            def pre():
                import resource
                resource.setrlimit(resource.RLIMIT_STACK, (stack_mb << 20, stack_mb << 20))
        p = subprocess.run([n2] + args, cwd=cwd, stdin=subprocess.DEVNULL, stdout=subprocess.PIPE,
                           stderr=subprocess.STDOUT, timeout=timeout, preexec_fn=pre)
        return p.returncode, p.stdout
    cols = use_pty
    m, s = pty.openpty()
    fcntl.ioctl(s, termios.TIOCSWINSZ, struct.pack("HHHH", 24, cols, 0, 0))
    p = subprocess.Popen([n2] + args, cwd=cwd, stdin=s, stdout=s, stderr=s, close_fds=True)
    os.close(s)
    buf = b""
    t0 = time.time()
    while True:
        if time.time() - t0 > timeout:
            p.kill(); raise D.ToolError("n2 under pty timed out")
        r, _, _ = select.select([m], [], [], 0.2)
        if r:
            try:
                d = os.read(m, 65536)
            except OSError:
                d = b""
            if not d:
                if p.poll() is not None:
                    break
            buf += d
        elif p.poll() is not None:
            break
    os.close(m)
    return p.wait(), buf

TOK = re.compile(rb"@(\d\d):(\d{7}):(?:xxx|\xff\xfe\xc3)\n")

def parse_tokens(out, nsteps):
    """Runs of consecutive token numbers per step, in order of appearance."""
    runs = {i: [] for i in range(nsteps)}
    last = {}
    for m in TOK.finditer(out):
        st = int(m.group(1)); no = int(m.group(2))
        if st not in runs:
            continue
        r = runs[st]
        contiguous_bytes = st in last and last[st][1] == m.start() and r and r[-1][1] == no - 1
        if contiguous_bytes:
            r[-1][1] = no
        else:
            r.append([no, no])
        last[st] = (no, m.end())
    return runs, last

SUMRAN = re.compile(rb"n2: ran (\d+) tasks?, now up to date\n")
NOTE = re.compile(rb"signal \d+|interrupted")

STATUS = re.compile(rb"^\[([^\]\n]*)\] (\d+)/(\d+) done, (?:(\d+) failed, )?(\d+)/(\d+) running\n", re.M)
CURSOR_UP = re.compile(rb"\x1b\[(\d+)A")

def fancy_frames(buf, steps):
    """Cuts what n2 wrote to a terminal into the frames of FancyConsoleProgress (lexically):
    each frame = flushed text (task output, log lines), the status line, the lines of the running
    tasks, and the cursor-up count.  Returns (frames, items of all flushed text in order)."""
    frames = []; items = []
    for seg in buf.split(b"\r\x1b[J"):
        text = seg.replace(b"\r\n", b"\n")
        up = -1
        m = None
        for m in CURSOR_UP.finditer(text):
            pass
        if m:
            up = int(m.group(1)); text = text[:m.start()] + text[m.end():]
        sm = STATUS.search(text)
        if sm:
            pre = text[:sm.start()]; after = text[sm.end():]
            raw = after.split(b"\n")
            if raw and raw[-1] == b"":
                raw = raw[:-1]
            lines = []
            for ln in raw:
                try:
                    ln.decode("utf-8"); ok = True
                except UnicodeDecodeError:
                    ok = False
                kind = "last" if ln.startswith(b"  ") else ("more" if ln.startswith(b"...and ") else "task")
                lines.append([kind, len(ln), ok])
            frames.append({"status": True, "bar": sm.group(1).decode("utf-8", "replace"),
                           "done": int(sm.group(2)), "total": int(sm.group(3)),
                           "failed": int(sm.group(4) or 0), "run": int(sm.group(5)), "open": int(sm.group(6)),
                           "lines": lines, "up": up})
        else:
            pre = text
            if up >= 0:
                frames.append({"status": False, "bar": "", "done": 0, "total": 0, "failed": 0, "run": 0,
                               "open": 0, "lines": [], "up": up})
        items += console_items(pre, steps, fancy=True)
    return frames, items

def console_items(out, steps, verbose=False, fancy=False):
    """Cuts n2's captured output into the items of the console protocol (ExecObs.Con): purely
    lexical, no judgement."""
    msg = {}
    for s in steps:
        bm = s.desc if s.desc else s.cmd            # progress::build_message
        started = s.cmd if verbose else bm          # what task_started prints
        if started != bm:
            msg[bm.encode() + b"\n"] = ["hdr", s.name]
        msg[started.encode() + b"\n"] = ["msg", s.name]
        msg[b"failed: " + bm.encode() + b"\n"] = ["failed", s.name]
        msg[b"interrupted: " + bm.encode() + b"\n"] = ["intr", s.name]
    keys = sorted(msg, key=len, reverse=True)
    items = []; p = 0; n = len(out)
    while p < n:
        m = TOK.match(out, p)
        if m:
            st = int(m.group(1)); first = last = int(m.group(2)); p = m.end()
            while True:
                m2 = TOK.match(out, p)
                if m2 and int(m2.group(1)) == st and int(m2.group(2)) == last + 1:
                    last += 1; p = m2.end()
                else:
                    break
            tail = 0
            want_tail = steps[st].tail if st < len(steps) else 0
            while tail < want_tail and p < n and out[p:p + 1] == b"#":
                tail += 1; p += 1
            items.append(["pay", steps[st].name if st < len(steps) else "?", first, last, tail])
            if fancy and tail > 0 and out[p:p + 1] == b"\n":
                p += 1          # the fancy display ends unterminated output with a newline
            continue
        if out[p:p + 1] == b"#" and items and items[-1][0] in ("msg", "hdr", "failed", "intr"):
            # a payload without a complete token: only the tail bytes
            st = [s for s in steps if s.name == items[-1][1]]
            if st and st[0].ntok == 0 and st[0].tail > 0:
                tail = 0
                while tail < st[0].tail and out[p:p + 1] == b"#":
                    tail += 1; p += 1
                items.append(["pay", st[0].name, 0, -1, tail]); continue
        hit = None
        for k in keys:
            if out.startswith(k, p):
                hit = k; break
        if hit:
            items.append(list(msg[hit])); p += len(hit); continue
        if out.startswith(b"n2: no work to do\n", p):
            items.append(["sum", "nowork", 0]); p += len(b"n2: no work to do\n"); continue
        m = SUMRAN.match(out, p)
        if m:
            items.append(["sum", "ran", int(m.group(1))]); p = m.end(); continue
        m = NOTE.match(out, p)
        if m and items and items[-1][0] in ("pay", "failed", "intr"):
            items.append(["note", m.group(0).decode()]); p = m.end(); continue
        e = out.find(b"\n", p)
        e = n if e < 0 else e + 1
        line = out[p:e]
        if line.startswith(b"n2: error: "):
            items.append(["err", line.decode("utf-8", "replace").strip()])
        elif line.startswith(b"#") and items and items[-1][0] == "pay":
            items.append(["other", "tail bytes beyond the payload"])
        else:
            items.append(["other", line.decode("utf-8", "replace")[:200]])
        p = e
    return items

def observe(sdir, steps, out, j, events, wantexit, exit, wantran=None, verbose=False, console=True):
    """Turns obs files and n2's output into events."""
    ran = []
    intr_seen = False
    after_intr = []
    runs, last = parse_tokens(out, len(steps))
    text = out.decode("utf-8", "replace")
    for no, s in enumerate(steps):
        argvp = os.path.join(sdir, "obs", s.name + ".argv")
        if not os.path.exists(argvp):
            continue
        ran.append(s.name)
        raw = open(argvp, "rb").read().decode("utf-8", "replace")
        parts = raw.split("\n", 2)
        argv = parts[:2] + [parts[2][:-1] if len(parts) > 2 and parts[2].endswith("\n") else (parts[2] if len(parts) > 2 else "")]
        rd = lambda ext: (open(os.path.join(sdir, "obs", s.name + ext)).read()
                          if os.path.exists(os.path.join(sdir, "obs", s.name + ext)) else "")
        fds = []; same12 = True
        if s.probe:
            tg = {}
            for line in rd(".fds").splitlines():
                m = re.search(r"\s(\d+) -> (.*)$", line)
                if m:
                    tg[int(m.group(1))] = m.group(2)
            fds = sorted(tg)
            same12 = tg.get(1) == tg.get(2) and str(tg.get(1, "")).startswith("pipe:")
        dirs = sorted({os.path.dirname(o) for o in s.outs if os.path.dirname(o)})
        dirok = (rd(".dir").count("yes") == len(dirs))
        events.append({"e": "xcmd", "step": s.name, "want": s.cmd, "argv": argv,
                       "cwd": rd(".cwd").strip(), "wantcwd": os.path.realpath(sdir),
                       "stdin": rd(".stdin").strip(), "fd0": rd(".fd0").strip(),
                       "probed": bool(s.probe), "fds": fds, "same12": same12, "dirok": dirok,
                       "hasrsp": bool(s.rsp), "rspwant": s.rsp[1] if s.rsp else "", "rspgot": rd(".rsp")})
        # output
        tailok = True
        if s.tail and s.ntok:
            end = last.get(no, (0, 0))[1]
            tailok = out[end:end + s.tail] == b"#" * s.tail and out[end + s.tail:end + s.tail + 1] != b"#"
        foreign = 0
        # hide_success: the output of a successful command is not shown
        shown_ntok = 0 if (s.hide and s.want == "ok") else s.ntok
        events.append({"e": "xout", "step": s.name, "ntok": shown_ntok, "runs": runs.get(no, []),
                       "tailok": tailok, "foreign": foreign,
                       "notes": text.count("Note: including file:") if s.msvc else 0})
        # classification by n2
        got = "ok"; gotnote = ""
        if ("failed: " + s.desc + "\n") in text:
            got = "fail"
        if ("interrupted: " + s.desc + "\n") in text:
            got = "intr"
        if s.note:
            gotnote = s.note if (s.note in text) else ""
        events.append({"e": "xres", "step": s.name, "want": s.want, "got": got,
                       "wantnote": s.note, "gotnote": gotnote})
    if console and not any(s.msvc for s in steps):
        table = {s.name: {"want": s.want, "ntok": s.ntok, "tail": s.tail, "note": s.note if s.note.startswith("signal") or s.note == "interrupted" else "",
                          "hide": bool(getattr(s, "hide", False)),
                          "free": bool(s.depfile and s.want == "fail")} for s in steps}
        events.append({"e": "xcon", "items": console_items(out, steps, verbose), "steps": table,
                       "ran": sorted(ran), "exit": exit, "fancy": False})
    events.append({"e": "xend", "exit": exit, "wantexit": wantexit, "j": j, "afterintr": after_intr,
                   "ran": sorted(ran), "wantran": sorted(wantran if wantran is not None else [s.name for s in steps])})

def scenario(n2, root, sid, steps, j, wantexit, events, pools=(), payloads=True, args=(), wantran=None,
             pre=None, runs=1, between=None):
    sdir = os.path.join(root, sid)
    shutil.rmtree(sdir, ignore_errors=True)
    os.makedirs(os.path.join(sdir, "obs")); os.makedirs(os.path.join(sdir, "pay")); os.makedirs(os.path.join(sdir, "m"))
    for no, s in enumerate(steps):
        if True:
            data = token_payload(no, s.ntok, s.tail, raw=getattr(s, "raw", False))
            # thirds: stdout, stderr, stdout (cut at token boundaries)
            a = (s.ntok // 3) * 16; b = (2 * s.ntok // 3) * 16
            for part, seg in (("a", data[:a]), ("b", data[a:b]), ("c", data[b:])):
                open(os.path.join(sdir, "pay", "%s.%s" % (s.name, part)), "wb").write(seg)
        for i in s.ins:
            if not any(i in t.outs for t in steps):
                open(os.path.join(sdir, i), "w").write("src\n")
    open(os.path.join(sdir, "build.ninja"), "w").write(manifest(steps, pools))
    if pre:
        pre(sdir)
    events.append({"e": "xscn", "id": sid})
    rc, out = run_n2(n2, sdir, ["-j", str(j)] + list(args))
    observe(sdir, steps, out, j, events, wantexit, rc, wantran, verbose="-v" in args)
    return sdir, rc, out

def emit(name):
    return "cat pay/%s.a; cat pay/%s.b >&2; cat pay/%s.c; " % (name, name, name)

def generate_and_run(tier, seed, wdir):
    n2 = D.build_n2_binary()
    root = "/dev/shm/n2x-%d" % os.getpid()
    shutil.rmtree(root, ignore_errors=True); os.makedirs(root)
    ev = []
    rnd = random.Random(seed)
    try:
        # 1. command strings, cwd, stdin, descriptors, output directories, response file
        steps = [
            Step("q1", "printf '%s|' 'a b' \"c  d\" \"$HOME\" 'e\"f' > q1.out"),
            Step("q2", "echo x > d1/d2/q2.out; echo y > d3/q2b.out", outs=["d1/d2/q2.out", "d3/q2b.out"],
                 ins=["in1", "in 2".replace(" ", "_")], rsp=("r/s/q2.rsp", "in1 \"x y\" $z 'w'")),
            Step("q3", "(exit 0) && echo ok > q3.out 2>&1 < /dev/null", probe=True),
            Step("q4", "X=1 sh -c 'echo $X' > q4.out; true", probe=True),
        ]
        scenario(n2, root, "basics", steps, 1, 0, ev)
        scenario(n2, root, "basics-j4", steps, 4, 0, ev)
        # 1b. an output directory made for an earlier step and removed by a command in between is
        #     made again for the next step that needs it
        steps = [Step("g1", "echo a > stage/g1.txt", outs=["stage/g1.txt"]),
                 Step("g2", "rm -rf stage; echo b > g2.out", ins=["stage/g1.txt"]),
                 Step("g3", "echo c > stage/g3.txt", outs=["stage/g3.txt"], ins=["g2.out"]),
                 Step("g4", "rm -rf stage; echo d > g4.out", ins=["stage/g3.txt"]),
                 Step("g5", "echo e > stage/sub/g5.txt", outs=["stage/sub/g5.txt"], ins=["g4.out"])]
        scenario(n2, root, "outdir-removed", steps, 1, 0, ev)
        # 1c. the console protocol: messages, hidden output, missing description, -v
        def console_steps():
            return [Step("k1", emit("k1") + "echo x > k1.out", ntok=3),
                    Step("k2", emit("k2") + "echo x > k2.out", ntok=3, hide=True),
                    Step("k3", emit("k3") + "echo x > k3.out", ntok=2, tail=5, desc=""),
                    Step("k4", "echo x > k4.out"),
                    Step("k5", emit("k5") + "exit 3", ntok=4, hide=True, want="fail"),
                    Step("k6", emit("k6") + "echo x > k6.out", ntok=1, ins=["k1.out", "k4.out"])]
        for j in (1, 4):
            scenario(n2, root, "console-j%d" % j, console_steps(), j, 1, ev)
            scenario(n2, root, "console-v-j%d" % j, console_steps(), j, 1, ev, args=["-v"])
        # 2. output volumes around pipe and buffer boundaries, stdout/stderr mixed, many at once
        sizes = [0, 1, 15, 16, 17, 255, 256, 257, 4095, 4096, 4097, 65535, 65536, 65537, 200000]
        if tier == "thorough":
            sizes += [8191, 8192, 8193, 131071, 131072, 131073, 1000000]
        for j in ([1, 4, 16] if tier == "quick" else [1, 2, 4, 8, 16]):
            steps = []
            for k, sz in enumerate(sizes):
                st = Step("v%d" % k, emit("v%d" % k) + "echo done > v%d.out" % k, ntok=sz // 16, tail=sz % 16)
                st.raw = (k % 3 == 1)     # every third command prints bytes that are not UTF-8
                steps.append(st)
            scenario(n2, root, "volume-j%d" % j, steps, j, 0, ev)
        # 3. exit codes and signals
        steps = []
        for code in (0, 1, 2, 126, 127, 255):
            steps.append(Step("e%d" % code, emit("e%d" % code) + "echo x > e%d.out; exit %d" % (code, code),
                              want="ok" if code == 0 else "fail", ntok=3))
        for sig, num in (("TERM", 15), ("KILL", 9), ("HUP", 1)):
            steps.append(Step("s" + sig, "echo x > s%s.out; kill -%s $$; sleep 5" % (sig, sig), want="fail",
                              note="signal %d" % num))
        scenario(n2, root, "status", steps, 2, 1, ev)
        # 4. SIGINT: interruption stops the build
        steps = [Step("i1", "echo 1 > i1.out"),
                 Step("i2", "kill -INT $$; sleep 5", ins=["i1.out"], want="intr", note="interrupted"),
                 Step("i3", "echo 3 > i3.out", ins=["i2.out"])]
        scenario(n2, root, "interrupt", steps, 1, 1, ev, wantran=["i1", "i2"])
        # 5. descriptor leak: B is spawned while A certainly runs (A's pipe is open in n2)
        steps = [Step("A", "touch m/A; " + (WAIT % "m/B") + "; echo a > A.out"),
                 Step("C", (WAIT % "m/A") + "; echo c > C.out"),
                 Step("B", "touch m/B; echo b > B.out", ins=["C.out"], probe=True)]
        for _ in range(2 if tier == "quick" else 6):
            scenario(n2, root, "fdleak", steps, 3, 0, ev)
        # 6. /showIncludes end to end
        steps = [Step("m1", "printf 'Note: including file: h1.h\\nreal line\\nNote: including file:   sub/h2.h\\r\\n'; " + emit("m1") + "echo x > m1.out",
                      ins=["m1.c"], msvc=True, ntok=5)]
        def mk_headers(sdir):
            os.makedirs(os.path.join(sdir, "sub"), exist_ok=True)
            for h in ("h1.h", "sub/h2.h"):
                open(os.path.join(sdir, h), "w").write("h\n")
        sdir, rc, out = scenario(n2, root, "showincludes", steps, 1, 0, ev, pre=mk_headers)
        # output that starts with empty lines keeps them when the include notes are filtered
        steps2 = [Step("m2", "printf '\\n\\nNote: including file: h1.h\\nkept line\\n\\nlast\\n'; echo x > m2.out",
                       ins=["m2.c"], msvc=True)]
        sdir2, rc2_, out2_ = scenario(n2, root, "showincludes-blank", steps2, 1, 0, ev, pre=mk_headers)
        ev.append({"e": "xeq", "props": ["C16", "C09"], "tag": "showincludes-leading-blank",
                   "a": "STEP-m2\n\n\nkept line\n\nlast\n" in out2_.decode(), "b": True})
        # the reported headers are dirtying inputs of the next run; nothing else re-runs
        rc2, out2 = run_n2(n2, sdir, ["-j", "1"])
        ev.append({"e": "xeq", "props": ["C09", "C03"], "tag": "noop-after-msvc", "a": "n2: no work to do" in out2.decode(), "b": True})
        time.sleep(0.02)
        os.utime(os.path.join(sdir, "sub/h2.h"), None)
        st = os.stat(os.path.join(sdir, "sub/h2.h"))
        os.utime(os.path.join(sdir, "sub/h2.h"), ns=(st.st_atime_ns, st.st_mtime_ns + 5_000_000_000))
        rc3, out3 = run_n2(n2, sdir, ["-j", "1"])
        ev.append({"e": "xeq", "props": ["C09"], "tag": "rebuild-after-header-touch", "a": "ran 1 task" in out3.decode(), "b": True})
        # 7. depfile end to end: missing = empty, malformed = step failure naming the depfile
        steps = [Step("d1", "echo x > d1.out", depfile="d1.d")]
        sdir, rc, out = scenario(n2, root, "depfile-missing", steps, 1, 0, ev)
        steps = [Step("d2", "printf 'd2.out a b\\n' > d2.d; echo x > d2.out", depfile="d2.d", want="fail")]
        sdir, rc, out = scenario(n2, root, "depfile-bad", steps, 1, 1, ev)
        ev.append({"e": "xeq", "props": ["C15"], "tag": "bad-depfile-names-file", "a": "d2.d" in out.decode() and "parse error" in out.decode(), "b": True})
        # 8. -C, -f, builddir select directory, manifest and log location only
        base = os.path.join(root, "sel"); shutil.rmtree(base, ignore_errors=True); os.makedirs(os.path.join(base, "proj"))
        man = "builddir = bd\nrule t\n  command = echo $out > $out\nbuild a: t\nbuild b: t a\ndefault b\n"
        open(os.path.join(base, "proj", "alt.ninja"), "w").write(man)
        rc, out = run_n2(n2, base, ["-C", "proj", "-f", "alt.ninja"])
        okfiles = all(os.path.exists(os.path.join(base, "proj", f)) for f in ("a", "b", "bd/.n2_db")) \
                  and not os.path.exists(os.path.join(base, "proj", ".n2_db")) and not os.path.exists(os.path.join(base, ".n2_db"))
        ev.append({"e": "xeq", "props": ["C18"], "tag": "C-f-builddir", "a": [rc, okfiles, "ran 2 tasks" in out.decode()], "b": [0, True, True]})
        rc, out = run_n2(n2, os.path.join(base, "proj"), ["-f", "alt.ninja"])
        ev.append({"e": "xeq", "props": ["C18", "C03"], "tag": "C-f-builddir-noop", "a": [rc, "no work to do" in out.decode()], "b": [0, True]})
        # 8b. record shapes (C08): many discovered deps, long and non-ASCII paths, many outputs
        for ndeps in ([0, 1, 255, 65535, 65536, 70000] if tier == "thorough" else [1, 255, 65535, 65536]):
            base = os.path.join(root, "big%d" % ndeps); shutil.rmtree(base, ignore_errors=True)
            os.makedirs(os.path.join(base, "hdr"))
            longname = "hdr/" + "L" * 200 + "-\u00e9\u20ac.h"
            names = ["hdr/h%d.h" % i for i in range(max(0, ndeps - 1))] + ([longname] if ndeps else [])
            for nm in names:
                open(os.path.join(base, nm), "w").close()
            with open(os.path.join(base, "deps.list"), "w") as f:
                f.write("o1: " + " \\\n ".join(names) + "\n")
            outs = " ".join("o%d" % i for i in range(1, 6))
            man = ("rule cc\n  command = cp deps.list o1.d && touch %s\n  depfile = o1.d\n"
                   "build %s: cc src\nrule t\n  command = touch $out\nbuild other: t o1\n") % (outs, outs)
            open(os.path.join(base, "build.ninja"), "w").write(man)
            open(os.path.join(base, "src"), "w").close()
            ev.append({"e": "xscn", "id": "bigrec-%d" % ndeps})
            r1, o1 = run_n2(n2, base, ["-j", "1"], timeout=300)
            r2, o2 = run_n2(n2, base, ["-j", "1"], timeout=300)
            ev.append({"e": "xeq", "props": ["C08"], "tag": "record-%d-deps-reloaded" % ndeps,
                       "a": [r1, r2, "no work to do" in o2.decode("utf-8", "replace")], "b": [0, 0, True]})
            if names:
                for which in (names[0], names[-1]):
                    p = os.path.join(base, which)
                    st = os.stat(p)
                    os.utime(p, ns=(st.st_atime_ns, st.st_mtime_ns + 7_000_000_000))
                    r3, o3 = run_n2(n2, base, ["-j", "1"], timeout=300)
                    ev.append({"e": "xeq", "props": ["C08"], "tag": "record-%d-deps-dirty" % ndeps,
                               "a": [r3, "ran 2 tasks" in o3.decode("utf-8", "replace")], "b": [0, True]})
        # 8c. deep graphs (C06: every acyclic graph; C12: every manifest): a chain of N steps, the
        #     last one requested with restat (nothing has to run, so only loading, wanting and
        #     checking are exercised)
        for depth in (2000, 100000):
            base = os.path.join(root, "deep%d" % depth); shutil.rmtree(base, ignore_errors=True); os.makedirs(base)
            with open(os.path.join(base, "build.ninja"), "w") as f:
                f.write("rule t\n  command = touch $out\nbuild o0: t\n")
                for i in range(1, depth):
                    f.write("build o%d: t o%d\n" % (i, i - 1))
            ev.append({"e": "xscn", "id": "deep-chain-%d" % depth})
            rc, out = run_n2(n2, base, ["-j", "2", "-d", "ninja_compat", "-t", "restat", "o%d" % (depth - 1)], timeout=300,
                             stack_mb=8)      # the usual main-thread stack, whatever the caller's limit
            ev.append({"e": "xeq", "props": ["C06", "C12"], "tag": "deep-chain-%d" % depth,
                       "a": [rc, b"n2: no work to do" in out], "b": [0, True]})
        # 8d. -d trace: the performance trace is a JSON array with one complete event per executed
        #     command (named by its message, on a lane 1..j that no overlapping command shares),
        #     the phases of the invocation on lane 0, and "main" last
        steps = [Step("w%d" % i, "sleep 0.%d; echo x > w%d.out" % (1 + i % 3, i), ins=(["w0.out"] if i in (3, 4) else []))
                 for i in range(6)]
        sdir, rc, out = scenario(n2, root, "tracefile", steps, 3, 0, ev, args=["-d", "trace"])
        tj = os.path.join(sdir, "trace.json")
        try:
            raw = json.load(open(tj)); valid = isinstance(raw, list)
        except Exception:
            raw = []; valid = False
        tevs = [[e.get("name", ""), int(e.get("tid", -1)), int(e.get("ts", -1)), int(e.get("dur", -1)), e.get("ph", "")]
                for e in raw if isinstance(e, dict)]
        ev.append({"e": "xtrace", "valid": valid, "events": tevs, "j": 3,
                   "tasks": sorted(s.desc for s in steps)})
        # 9. a tty changes nothing about the build (C20 isolation clause)
        for cols in (10, 11, 20, 80):
            desc = "übergroße Beschreibung — ☃☃☃☃☃☃☃☃☃☃ 𝄞𝄞𝄞 long enough to be cut somewhere"
            def mk(k):
                return [Step("t%d" % i, emit("t%d" % i) + "sleep 0.%d; echo x > t%d.out" % (rnd.randint(0, 2), i),
                             ntok=3, desc="%s %d" % (desc, i)) for i in range(k)]
            steps = mk(4)
            sdir = os.path.join(root, "pty%d" % cols); shutil.rmtree(sdir, ignore_errors=True)
            for d in ("obs", "pay", "m"):
                os.makedirs(os.path.join(sdir, d))
            for no, s in enumerate(steps):
                data = token_payload(no, s.ntok, s.tail, raw=getattr(s, "raw", False))
                for part, seg in (("a", data[:16]), ("b", data[16:32]), ("c", data[32:])):
                    open(os.path.join(sdir, "pay", "%s.%s" % (s.name, part)), "wb").write(seg)
            open(os.path.join(sdir, "build.ninja"), "w").write(manifest(steps))
            rc, out = run_n2(n2, sdir, ["-j", "2"], use_pty=cols)
            outs_ok = all(os.path.exists(os.path.join(sdir, "t%d.out" % i)) for i in range(4))
            ev.append({"e": "xeq", "props": ["C20"], "tag": "pty-isolation", "a": [rc, outs_ok], "b": [0, True], "cols": cols})
            frames, items = fancy_frames(out, steps)
            table = {s.name: {"want": s.want, "ntok": s.ntok, "tail": s.tail, "note": "", "hide": False, "free": False}
                     for s in steps}
            ev.append({"e": "xfancy", "cols": cols if cols >= 10 else 80, "j": 2, "frames": frames})
            ev.append({"e": "xcon", "items": items, "steps": table, "ran": sorted(s.name for s in steps),
                       "exit": rc, "fancy": True})
        # 9a. what a running task printed last is shown under its message, cut to the terminal: lines
        #     of multi-byte text and of bytes that are not UTF-8 at all, longer than any width used
        #     (only the frames are judged here)
        for cols in ((10, 40) if tier == "quick" else (10, 17, 40, 80)):
            steps = [Step("y0", "printf 'ünïcödé ☃☃☃☃☃☃☃☃☃☃☃☃☃☃☃☃☃☃☃☃☃☃☃☃☃☃☃☃☃☃☃☃☃☃☃☃☃☃☃☃☃☃ 𝄞𝄞𝄞𝄞𝄞𝄞𝄞𝄞𝄞𝄞𝄞𝄞\\n'; sleep 0.7; echo x > y0.out", desc="Y0"),
                     Step("y1", "printf '\\377\\376\\375\\374\\373\\372\\371\\370\\367\\366\\365\\364\\363\\362\\361\\360\\357\\356\\355\\354\\353\\352\\351\\350\\347\\346\\345\\344\\343\\342\\341\\340 tail of raw bytes that goes on and on and on and on and on and on and on\\n'; sleep 0.7; echo x > y1.out", desc="Y1"),
                     Step("y2", "printf 'aaaaaaaaaaaaaaaaaaaaaaaaaaaaaaaaaaaaaaa€€€€€€€€€€€€€€€€€€€€€€€€€€€€€€€€€€€€€€€€€€€\\n'; sleep 0.7; echo x > y2.out", desc="Y2")]
            sdir = os.path.join(root, "ptyu%d" % cols); shutil.rmtree(sdir, ignore_errors=True)
            for d in ("obs", "pay", "m"):
                os.makedirs(os.path.join(sdir, d))
            open(os.path.join(sdir, "build.ninja"), "w").write(manifest(steps))
            ev.append({"e": "xscn", "id": "ptyu%d" % cols})
            rc, out = run_n2(n2, sdir, ["-j", "3"], use_pty=cols)
            outs_ok = all(os.path.exists(os.path.join(sdir, "y%d.out" % i)) for i in range(3))
            ev.append({"e": "xeq", "props": ["C20"], "tag": "pty-isolation", "a": [rc, outs_ok], "b": [0, True], "cols": cols})
            frames, _ = fancy_frames(out, steps)
            ev.append({"e": "xfancy", "cols": cols, "j": 3, "frames": frames})
            ev.append({"e": "xeq", "props": ["C20"], "tag": "last-line-shown",
                       "a": any(l[0] == "last" for f in frames for l in f["lines"]), "b": True})
        # 9b. many tasks at once (more than the display lists), long-running ones (time notes),
        #     a failing one, output without final newline
        for cols in ((10, 30, 80) if tier == "quick" else (10, 12, 30, 47, 80, 200)):
            desc = "Ünïcödé task description ☃☃☃ 𝄞 that is certainly longer than a narrow terminal"
            steps = []
            for i in range(12):
                slow = 3.4 if (i == 0 and cols == 30) else 0.3 + 0.05 * (i % 5)
                body = emit("u%d" % i) + "sleep %.2f; " % slow
                if i == 5:
                    steps.append(Step("u%d" % i, body + "exit 4", ntok=2, tail=3, desc="%s %d" % (desc, i), want="fail"))
                else:
                    steps.append(Step("u%d" % i, body + "echo x > u%d.out" % i, ntok=2 + i % 3, tail=(i % 2) * 7,
                                      desc="%s %d" % (desc, i)))
            sdir = os.path.join(root, "ptyx%d" % cols); shutil.rmtree(sdir, ignore_errors=True)
            for d in ("obs", "pay", "m"):
                os.makedirs(os.path.join(sdir, d))
            for no, s in enumerate(steps):
                data = token_payload(no, s.ntok, s.tail, raw=getattr(s, "raw", False))
                a = (s.ntok // 3) * 16; b = (2 * s.ntok // 3) * 16
                for part, seg in (("a", data[:a]), ("b", data[a:b]), ("c", data[b:])):
                    open(os.path.join(sdir, "pay", "%s.%s" % (s.name, part)), "wb").write(seg)
            open(os.path.join(sdir, "build.ninja"), "w").write(manifest(steps))
            ev.append({"e": "xscn", "id": "ptyx%d" % cols})
            rc, out = run_n2(n2, sdir, ["-j", "11", "-k", "0"], use_pty=cols)
            outs_ok = all(os.path.exists(os.path.join(sdir, "u%d.out" % i)) for i in range(12) if i != 5)
            ev.append({"e": "xeq", "props": ["C20"], "tag": "pty-isolation", "a": [rc, outs_ok], "b": [1, True], "cols": cols})
            frames, items = fancy_frames(out, steps)
            table = {s.name: {"want": s.want, "ntok": s.ntok, "tail": s.tail, "note": "", "hide": False, "free": False}
                     for s in steps}
            ev.append({"e": "xfancy", "cols": cols, "j": 11, "frames": frames})
            ev.append({"e": "xcon", "items": items, "steps": table, "ran": sorted(s.name for s in steps),
                       "exit": rc, "fancy": True})
    finally:
        shutil.rmtree(root, ignore_errors=True)
    return ev

def run(tier, seed):
    key = D.sha("|".join(["exec", tier, str(seed), D.repo_key(), D.spec_key(), D.ENGINE_VERSION]))[:16]
    path = os.path.join(D.CACHE, "exec-%s.json" % key)
    with D.Lock("exec"):
        if os.path.exists(path):
            r = json.load(open(path)); r["cached"] = True
            return r
        t0 = time.time()
        wdir = os.path.join(D.WORK, "exec-%s" % key)
        shutil.rmtree(wdir, ignore_errors=True); os.makedirs(wdir)
        ev = generate_and_run(tier, seed, wdir)
        tp = os.path.join(wdir, "exec.trace")
        with open(tp, "w") as f:
            for e in ev:
                f.write(json.dumps(e) + "\n")
        rc, out, wall = D.run_tlc(D.SPEC + "/ExecObs.tla", D.SPEC + "/ExecObs.cfg", workers=1,
                                  env_extra={"TRACE": tp}, timeout=600, xmx="3g")
        v = D.parse_verdict(out)
        if v is None or rc != 0:
            raise D.ToolError("ExecObs validation failed rc=%d:\n%s" % (rc, out[-2500:]))
        viol = []
        for (prop, tag, line) in v["viol"]:
            e = ev[line - 1]
            scn = "?"
            for k in range(line - 1, -1, -1):
                if ev[k]["e"] == "xscn":
                    scn = ev[k]["id"]; break
            viol.append({"prop": prop, "tag": tag, "line": line, "run": scn, "scn": scn, "fam": "exec",
                         "kind": "exec", "detail": e})
        r = {"engine": "exec", "tier": tier, "seed": seed, "events": len(ev), "viol": viol, "cov": v["cov"],
             "samples": [e for e in ev if e["e"] in ("xcmd", "xres")][:3], "wall_s": round(time.time() - t0, 1),
             "cached": False}
        json.dump(r, open(path, "w"))
        shutil.rmtree(wdir, ignore_errors=True)
        return r
