"""Crash engine (E3): for every history of a small family, every write n2 issues to the
build log and every number of bytes of that write that reach the file: die there, then run
two further invocations.  Two passes: the fault-free run of each base scenario tells which
writes exist (index, length); the variants inject the fault.
"""
import copy, json, random
from n2gen import *
import gen_hist

def base_scenarios(seed, tier):
    rnd = random.Random(seed * 31 + 3)
    scns = []
    def mk(id, g, extra_ops=(), second=None):
        ops = [manifest_op(g)] + [{"op": "write", "path": f} for f in sources(g)]
        for h in ("h1.h", "h2.h"):
            ops.append({"op": "write", "path": h})
        for s in g["steps"]:
            for h in s["eff"].get("reads", []):
                if h not in ("h1.h", "h2.h"):
                    ops.append({"op": "write", "path": h})
        ops.append(invoke([], j=2))
        ops += list(extra_ops)
        if second is not None:
            ops.append(second)
        return scenario(id, ops, fam="crash")
    dep = lambda o, reads: {"kind": "write", "reads": reads, "creads": reads}
    g1 = graph([step(["a"], ["s1"])])
    g2 = graph([step(["a.o"], ["a.c"], depfile="a.o.d", eff=dep("a.o", ["h1.h", "h2.h"])),
                step(["bin"], ["a.o"])])
    g3 = graph([step(["x", "y"], ["s1"], iouts=["z"], depfile="x.d", eff=dep("x", ["h1.h"])),
                step(["w"], ["y"], oo=["z"])])
    g4 = graph([step(["a"], ["s1"]), step(["b"], ["s2"]), step(["c"], ["a", "b"])])
    scns.append(mk("cr-1", g1))
    scns.append(mk("cr-2", g2))
    scns.append(mk("cr-3", g3))
    scns.append(mk("cr-4", g4))
    # a second invocation appending to an existing log
    scns.append(mk("cr-5", g2, [{"op": "write", "path": "h1.h"}], invoke([], j=1)))
    scns.append(mk("cr-6", g4, [{"op": "write", "path": "s1"}, {"op": "write", "path": "s2"}], invoke([], j=2)))
    # manifest change between: new paths are added to the log
    g4b = graph([step(["a"], ["s1"]), step(["b2"], ["s2"]), step(["c"], ["a", "b2"])])
    scns.append(mk("cr-7", g4, [manifest_op(g4b)], invoke([], j=1)))
    # a long record (many reported headers) next to steps with short ones: a recovery that records
    # less than the torn record was long
    many = ["inc/hdr%02d.h" % i for i in range(40)]
    g8 = graph([step(["big.o"], ["big.c"], depfile="big.o.d", eff=dep("big.o", many)),
                step(["sm"], ["s1"]), step(["sm2"], ["s2"]), step(["app"], ["big.o", "sm"])])
    scns.append(mk("cr-8", g8, [{"op": "write", "path": h} for h in many]
                   + [{"op": "write", "path": "big.c"}, {"op": "write", "path": "s1"}], invoke([], j=1)))
    n = 6 if tier == "quick" else 60
    for i in range(n):
        h = gen_hist.history(rnd, 9000 + i, "quick")
        h["id"] = "cr-h%d" % i
        h["fam"] = "crash"
        # keep histories short: cut after the third invocation
        ops = []; inv = 0
        for op in h["ops"]:
            if op["op"] == "invoke":
                inv += 1
                op = dict(op); op.pop("kill", None); op["outcomes"] = {}
            ops.append(op)
            if inv >= 3:
                break
        h["ops"] = ops
        scns.append(h)
    return scns

def variants(base, trace_lines, tier, rnd):
    """trace_lines: events (dicts) of the fault-free run of `base`."""
    # map each dbw event to the index of the invoke op it happened in
    inv_no = -1
    writes = []
    for ev in trace_lines:
        if ev["e"] == "invoke":
            inv_no += 1
        elif ev["e"] == "dbw":
            writes.append((ev["idx"], ev["len"], ev["kind"], inv_no))
    inv_ops = [i for i, op in enumerate(base["ops"]) if op["op"] == "invoke"]
    # targets with a small record of their own: single-output steps without reported dependencies
    small = []
    for op in base["ops"]:
        if op["op"] == "manifest" and "g" in op:
            small = [s["outs"][0] for s in op["g"]["steps"]
                     if not s["phony"] and len(s["outs"]) == 1 and not s.get("depfile") and not s.get("msvc")]
            break
    out = []
    for (idx, ln, kind, ino) in writes:
        if tier == "thorough" or ln <= 9:
            ks = list(range(0, ln + 1))
        else:
            ks = sorted(set([0, 1, 2, 3, ln // 2, ln - 2, ln - 1, ln]))
        if ln >= 40 and small:
            # a long record: every alignment of what is left of it behind a short recovery record
            ks = sorted(set(ks) | set(range(ln - 18, ln)))
        for k in ks:
            v = copy.deepcopy(base)
            v["id"] = "%s@%d.%d" % (base["id"], idx, k)
            cut = inv_ops[ino]
            v["ops"][cut]["crash"] = {"idx": idx, "kept": k}
            v["ops"][cut]["policy"] = base["ops"][cut].get("policy", {"kind": "first"})
            # later invocations of the base history stay; make sure two recovery runs follow
            cd = base.get("cdir", "")     # (a project reached with -C: the recovery runs too)
            v["ops"] = v["ops"][:cut + 1] + [o for o in v["ops"][cut + 1:]] + [invoke([], j=2, cdir=cd), invoke([], j=2, cdir=cd)]
            v["meta"] = {"kind": kind, "len": ln}
            out.append(v)
            # ... and a variant whose first recovery run records less than the torn record was
            # long (it builds one small target only), so that whatever the recovery leaves of the
            # torn bytes would follow the new records
            if small and ((ln >= 12 and k in (ln - 1, ln - 2, ln // 2)) or (ln >= 40 and k >= ln - 18)):
                v2 = copy.deepcopy(v)
                v2["id"] = v["id"] + "s"
                tgt = small[(idx + k) % len(small)]
                v2["ops"] = v2["ops"][:cut + 1] + [invoke([tgt], j=1, cdir=cd)] + v2["ops"][cut + 1:]
                out.append(v2)
    return out

def generate(seed, tier):
    """Two-pass generation (needs the built harness): fault-free base runs, then variants."""
    import os, shutil
    import driver as D
    rnd = random.Random(seed)
    base = base_scenarios(seed, tier)
    wdir = os.path.join(D.WORK, "crash-base-%d" % os.getpid())
    shutil.rmtree(wdir, ignore_errors=True); os.makedirs(wdir)
    sp = os.path.join(wdir, "base.ndjson")
    dump(base, sp)
    res = D.run_harness_shards(sp, os.path.join(wdir, "b"), 1, 1)
    by_id = {}
    cur = None
    with open(res[0]["trace"]) as f:
        for line in f:
            ev = json.loads(line)
            if ev["e"] == "scn":
                cur = ev["id"].split("#")[0]
                by_id[cur] = []
            else:
                by_id[cur].append(ev)
    out = []
    for b in base:
        out += variants(b, by_id.get(b["id"], []), tier, rnd)
    shutil.rmtree(wdir, ignore_errors=True)
    return out
