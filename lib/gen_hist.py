"""Scenario generator for the history engine (E2): sequences of invocations interleaved with
edits of sources, outputs, the manifest (command text, steps, edges, identity-preserving
rewrites), of what depfiles report, target subsets, failed and killed builds, restat.
Domain restrictions: DESIGN appendix B.
"""
import copy, random
from n2gen import *

SPELL = [lambda h: h, lambda h: "./" + h, lambda h: "x/../" + h, lambda h: "./x/.././" + h,
         lambda h: "x\\..\\" + h, lambda h: "x/\\../" + h]

def spell_reads(rnd, creads):
    return [rnd.choice(SPELL)(h) for h in creads]

def shuffled(rnd, q):
    q = list(q); rnd.shuffle(q); return q

class Project:
    """A small C-like project whose declared graph can be edited between invocations."""
    def __init__(self, rnd, idx):
        self.rnd = rnd
        self.style = {}
        self.headers = ["h1.h", "h2.h", "inc/h3.h"]
        self.gen_header = rnd.random() < 0.4
        self.steps = []      # list of dict protos
        self.private = []
        self.next_obj = 1
        nobj = rnd.randint(1, 3)
        if self.gen_header:
            self.steps.append(dict(kind="genh", outs=["gh.h"], ins=["gh.in"], cmd="gen-header v1",
                                   eff={"kind": rnd.choice(["write", "keep"]), "reads": []}))
        for _ in range(nobj):
            self.add_obj()
        self.link_cmd = "link v1"
        self.use_rsp = rnd.random() < 0.3
        self.rspc = "objs v1 -lfoo -lbar"
        self.multi = rnd.random() < 0.3
        self.stamp = rnd.random() < 0.3
        self.alias = rnd.random() < 0.4
        self.msvc = False
        # a step that mentions the headers as declared inputs (in another order than commands
        # report them): file numbering inside n2 then differs from report order
        self.hdrcheck = rnd.random() < 0.35
        # where the build log lives (C18): constant over the history
        self.builddir = rnd.choice(["", "", "", "bd", "out/log"])

    def add_obj(self):
        rnd = self.rnd
        i = self.next_obj; self.next_obj += 1
        creads = shuffled(rnd, [h for h in self.headers if rnd.random() < 0.5
                                and h not in getattr(self, "headers_gone", set())])
        oo = []
        if self.gen_header and rnd.random() < 0.6:
            creads.append("gh.h"); oo.append("gh.h")
        if rnd.random() < 0.2:
            creads.append("c%d.c" % i)        # reports its own source (overlap with declared)
        if rnd.random() < 0.15 and creads:
            creads.append(creads[0])          # duplicate report
        msvc = rnd.random() < 0.2
        # (one compile in four leaves an existing object file alone when it is re-run, and then
        # does not rewrite an unchanged depfile either)
        eff = {"kind": "keep" if rnd.random() < 0.25 else "write", "creads": creads, "reads": spell_reads(rnd, creads)}
        # what the command prints besides its include notes, and where the notes stand
        eff["output"] = rnd.choice(["", "", "c%d.c: warning: unused\n" % i, "first line\nsecond line\n",
                                    "\n\nafter two empty lines\n", "no newline at the end"])
        eff["notes_at"] = rnd.choice(["first", "first", "last", "last-nonl", "mid"])
        if rnd.random() < 0.25:
            # a private header that the command itself rewrites while it runs (the discovered
            # counterpart of a step modifying its own declared input)
            ph = "priv%d.h" % i
            eff["creads"] = creads + [ph]; eff["reads"] = eff["reads"] + [ph]
            eff["selfdisc"] = ph
            self.private.append(ph)
        if rnd.random() < 0.3:
            # the source itself is generated: the compile has a generated dirtying input
            self.steps.append(dict(kind="gensrc", outs=["c%d.c" % i], ins=["c%d.y" % i],
                                   cmd="yacc v1 c%d" % i, eff={"kind": rnd.choice(["write", "keep"]), "reads": []}))
        self.steps.append(dict(kind="obj", i=i, outs=["o%d.o" % i], ins=["c%d.c" % i], oo=oo,
                               depfile="" if msvc else "o%d.o.d" % i, msvc=msvc,
                               cmd="cc v1 c%d" % i, eff=eff))

    def objs(self):
        return [s for s in self.steps if s["kind"] == "obj"]

    def graph(self):
        steps = []
        for s in self.steps:
            steps.append(step(s["outs"], s["ins"], oo=s.get("oo", []), cmd=s["cmd"],
                              depfile=s.get("depfile", ""), msvc=s.get("msvc", False),
                              eff=copy.deepcopy(s["eff"])))
        objs = [o for s in self.objs() for o in s["outs"]]
        louts = ["bin"]; liouts = ["bin.map"] if self.multi is True else []
        link = step(louts, objs, iouts=liouts, cmd=self.link_cmd,
                    rsp="bin.rsp" if self.use_rsp else "", rspc=self.rspc if self.use_rsp else "",
                    eff={"kind": "write", "reads": []})
        steps.append(link)
        if self.multi == "moved":
            # the second output of the link step now belongs to a step of its own
            steps.append(step(["bin.map"], ["bin"], cmd="mapgen", eff={"kind": "write", "reads": []}))
        if self.hdrcheck:
            hs = [h for h in reversed(self.headers) if h not in getattr(self, "headers_gone", set())]
            if hs:
                chk = step(["hdr.ok"], hs, cmd="check-headers", eff={"kind": "write", "reads": []})
                steps.insert(getattr(self, "hdrpos", 0) % (len(steps) + 1), chk)
        if self.stamp:
            steps.append(step(["stamp"], ["stamp.in"], oo=["bin"], cmd="stamp v1",
                              eff={"kind": "write", "reads": []}))
        if self.alias:
            steps.append(step(["all"], ["bin"] + (["stamp"] if self.stamp else []), phony=True))
        order = getattr(self, "order", None)
        if order and sorted(order) == list(range(len(steps))):
            steps = [steps[k] for k in order]
        g = graph(steps)
        g["builddir"] = self.builddir
        for s in steps:
            for sp, c in zip(s["eff"].get("reads", []), s["eff"].get("creads", [])):
                add_spell(g, sp, c)
        return g

    def all_outputs(self, g):
        return [o for s in g["steps"] if not s["phony"] for o in s["outs"]]


def history(rnd, idx, tier):
    p = Project(rnd, idx)
    g = p.graph()
    ops = [manifest_op(g, style=p.style)]
    def put(f):
        # some sources and headers are symbolic links into another directory; edits go through
        # the link (what counts is the file the name denotes, not the link itself)
        if rnd.random() < 0.12 and f not in p.private:
            return {"op": "symlink", "path": f, "target": "linked/" + f.replace("/", "_")}
        return {"op": "write", "path": f}
    for f in sources(g):
        ops.append(put(f))
    # headers that may be reported but are not declared anywhere
    for h in p.headers + p.private:
        ops.append(put(h))
    ops.append(invoke([], j=rnd.randint(1, 3)))
    nsteps = rnd.randint(2, 6) if tier == "quick" else rnd.randint(3, 9)
    for _ in range(nsteps):
        g = p.graph()
        r = rnd.random()
        srcs = sources(g) + p.headers
        outs = p.all_outputs(g)
        manifest_changed = False
        if r < 0.22:
            for f in rnd.sample(srcs, rnd.randint(1, min(2, len(srcs)))):
                ops.append({"op": "write", "path": f})
                if f in getattr(p, "headers_gone", set()):
                    p.headers_gone.discard(f)
        elif r < 0.32:
            ops.append({"op": "rm", "path": rnd.choice(outs)})
        elif r < 0.38:
            ops.append({"op": "write", "path": rnd.choice(outs)})      # tampered output
        elif r < 0.44:
            # a reported dependency disappears; from now on the commands do not report it
            h = rnd.choice(p.headers)
            ops.append({"op": "rm", "path": h})
            for s in p.objs():
                keep = [(c, sp) for c, sp in zip(s["eff"]["creads"], s["eff"]["reads"]) if c != h]
                s["eff"]["creads"] = [c for c, _ in keep]
                s["eff"]["reads"] = [sp for _, sp in keep]
            p.headers_gone = getattr(p, "headers_gone", set()) | {h}
            manifest_changed = True
        elif r < 0.52:
            s = rnd.choice(p.steps)
            s["cmd"] = s["cmd"].replace("v1", "v2") if "v1" in s["cmd"] else s["cmd"] + " x"
            manifest_changed = True
        elif r < 0.56:
            p.link_cmd += " y"; manifest_changed = True
        elif r < 0.60 and p.use_rsp:
            # the evaluated response-file content grows or shrinks (a shorter content must not
            # leave the tail of the previous file behind)
            toks = p.rspc.split(" ")
            if len(toks) > 1 and rnd.random() < 0.6:
                p.rspc = " ".join(toks[:-1])
            else:
                p.rspc += " -lz%d" % len(toks)
            manifest_changed = True
        elif r < 0.70 and p.objs():
            # what a compile reports changes together with an edit of its source
            s = rnd.choice(p.objs())
            pool = [h for h in p.headers if h not in getattr(p, "headers_gone", set())] \
                   + (["gh.h"] if "gh.h" in s.get("oo", []) else [])
            creads = shuffled(rnd, [h for h in pool if rnd.random() < 0.5])
            if s["eff"].get("selfdisc"):
                creads = creads + [s["eff"]["selfdisc"]]
            s["eff"]["creads"] = creads
            s["eff"]["reads"] = spell_reads(rnd, creads[:-1]) + creads[-1:] if s["eff"].get("selfdisc") else spell_reads(rnd, creads)
            src = s["ins"][0]
            gens = [g2 for g2 in p.steps if src in g2["outs"]]
            ops.append({"op": "write", "path": gens[0]["ins"][0] if gens else src})
            manifest_changed = True     # same text, new declared behaviour of the command
        elif r < 0.76:
            npriv = len(p.private)
            p.add_obj(); manifest_changed = True
            k = p.next_obj - 1
            gen = any(q["kind"] == "gensrc" and q["outs"] == ["c%d.c" % k] for q in p.steps)
            ops.append({"op": "write", "path": ("c%d.y" if gen else "c%d.c") % k})
            for ph in p.private[npriv:]:
                ops.append({"op": "write", "path": ph})
        elif r < 0.80 and len(p.objs()) > 1:
            victim = rnd.choice(p.objs())
            p.steps = [q for q in p.steps if q is not victim and victim["ins"][0] not in q["outs"]]
            manifest_changed = True
        elif r < 0.92:
            # identity-preserving rewrite of the manifest text (C08)
            n = len(g["steps"])
            which = rnd.random()
            if which < 0.2:
                p.hdrcheck = not p.hdrcheck; p.hdrpos = rnd.randint(0, 5)   # add/remove an unrelated statement
            elif which < 0.35:
                order = list(range(n)); rnd.shuffle(order); p.order = order
            elif which < 0.55:
                p.style = dict(p.style, rule_prefix=rnd.choice(["r", "rule_", "cc", "x-y."]))
            elif which < 0.7:
                p.style = dict(p.style, comments=not p.style.get("comments"), blank=rnd.random() < 0.5)
            elif which < 0.8:
                p.style = dict(p.style, cmdvars=not p.style.get("cmdvars"))
            elif which < 0.9:
                p.style = dict(p.style, sharedrule=not p.style.get("sharedrule"))
            else:
                a = rnd.randint(1, n); b = rnd.randint(a, n)
                st = dict(p.style); st["include"] = (a, b); p.style = st
            manifest_changed = True
        elif r < 0.95 and p.objs():
            # a compile stops (or starts) reporting dependencies: the rule loses its depfile
            s = rnd.choice(p.objs())
            if s.get("depfile") or s.get("msvc"):
                s["saved_dep"] = (s.get("depfile", ""), s.get("msvc", False))
                s["depfile"] = ""; s["msvc"] = False
            elif s.get("saved_dep"):
                s["depfile"], s["msvc"] = s["saved_dep"]
            manifest_changed = True
        else:
            # the output set of link changes: second output added, dropped, or moved to another step
            if p.multi is True and rnd.random() < 0.6:
                p.multi = "moved"
            else:
                p.multi = rnd.choice([x for x in (False, True, "moved") if x != p.multi])
            manifest_changed = True
        if manifest_changed:
            g = p.graph()
            st = dict(p.style)
            if "include" in st:
                n = len(g["steps"])
                a, b = st["include"]
                if a > n:
                    st.pop("include")
                else:
                    st["include"] = (a, min(b, n))
            ops.append(manifest_op(g, style=st))
        if rnd.random() < 0.75:
            g = p.graph()
            outs = p.all_outputs(g) + (["all"] if p.alias else [])
            targets = []
            if rnd.random() < 0.4:
                targets = rnd.sample(outs, 1)
            outcomes = {}
            n = len(g["steps"])
            if rnd.random() < 0.2:
                outcomes[rnd.randint(1, n)] = "fail"
            kill = None
            if rnd.random() < 0.1:
                kill = {"at": rnd.randint(1, 2), "writes": [rnd.randint(1, n)] if rnd.random() < 0.5 else []}
            adopt = rnd.random() < 0.08
            order = list(range(1, n + 1)); rnd.shuffle(order)
            ops.append(invoke(targets, j=rnd.randint(1, 3), k=rnd.choice([0, 0, 1, 2]), adopt=adopt,
                              outcomes=outcomes, kill=kill, policy={"kind": "prio", "order": order},
                              explain=rnd.random() < 0.4))
    ops.append(invoke([], j=2))
    ops.append(invoke([], j=2))
    return scenario("hist-%d" % idx, ops, fam="hist", cdir=rnd.choice(["", "", "", "proj", "a/b"]))


def regen_history(rnd, idx, tier):
    """The manifest is an output of a generator step (C17)."""
    fname = rnd.choice(["build.ninja", "build.ninja", "alt.ninja"])
    bdir = rnd.choice(["", "", "bd"])
    # the generator may need a tool that is itself built (order-only): editing the tool's source
    # makes phase 1 run a command without regenerating the manifest
    helper = rnd.random() < 0.4
    def version(k, nsteps, rewire, cmdv, pooldepth=None):
        steps = [step([fname], ["gen.in"] + (["gen2.in"] if k % 2 else []), oo=(["tool"] if helper else []),
                      cmd="regen v%d" % cmdv, eff={"kind": "gen", "gen": "cur", "reads": []})]
        if helper:
            steps.append(step(["tool"], ["tool.in"], cmd="mktool", eff={"kind": "write", "reads": []}))
        for i in range(1, nsteps + 1):
            ins = ["s%d" % i]
            if rewire and i > 1:
                ins.append("o%d" % (i - 1))
            if i == 1 and k % 3 == 0:
                ins.append("gen.in")            # generator input shared with a user target
            steps.append(step(["o%d" % i], ins, cmd="cmd%d-%d" % (i, cmdv),
                              pool="" if pooldepth is None else "pl"))
        g = graph(steps, pools=[] if pooldepth is None else [("pl", pooldepth)])
        g["builddir"] = bdir
        if k % 4 == 1:
            g["defaults"] = ["o1"]
        return g
    versions = {}
    gs = []
    # split: the user steps live in an included file and the generator rewrites the top-level
    # manifest only when its text changes (gn / cmake / meson style)
    split = rnd.random() < 0.4
    nver = rnd.randint(2, 4)
    for k in range(nver):
        g = version(rnd.randint(0, 5), rnd.randint(1, 3), rnd.random() < 0.5, 1 + (k if rnd.random() < 0.3 else 0),
                    pooldepth=rnd.choice([None, None, 1, 2, 3]))
        gs.append(g)
    cur = 0
    for k, g in enumerate(gs):
        # what the generator writes when it runs in state k: the next version of the manifest
        nxt = gs[min(k + 1, len(gs) - 1)]
        for s in g["steps"]:
            if s["eff"]["kind"] == "gen":
                s["eff"]["gen"] = "v%d" % min(k + 1, len(gs) - 1)
                s["eff"]["keepmain"] = split
        if split and len(g["steps"]) > 1:
            text, extra = render_manifest(g, style={"include": (2, len(g["steps"]))})
            versions["v%d" % k] = {"text": text, "g": g, "extra": [list(x) for x in extra]}
        else:
            versions["v%d" % k] = {"text": render_manifest(g), "g": g, "extra": []}
    ops = [{"op": "manifest", "name": fname, "ver": "v0"}]
    allsrc = set(["gen.in", "gen2.in"])
    for g in gs:
        allsrc.update(sources(g))
    for f in sorted(allsrc):
        ops.append({"op": "write", "path": f})
    def inv(targets=(), outcomes=None, **kw):
        return invoke(list(targets), j=rnd.randint(1, 2), file=fname, outcomes=outcomes,
                      explain=rnd.random() < 0.3, **kw)
    ops.append(inv())
    for _ in range(rnd.randint(2, 5)):
        r = rnd.random()
        if helper and rnd.random() < 0.4:
            ops.append({"op": "write", "path": "tool.in"})
        if r < 0.5:
            ops.append({"op": "write", "path": rnd.choice(["gen.in", "gen2.in"])})
        elif r < 0.8:
            ops.append({"op": "write", "path": "s%d" % rnd.randint(1, 3)})
        tg = []
        if rnd.random() < 0.4:
            tg = ["o%d" % rnd.randint(1, 3)]       # may exist only in some versions
        elif rnd.random() < 0.3:
            # the manifest itself is requested, alone or with something else
            tg = [fname] if rnd.random() < 0.6 else [fname, "o1"]
        outcomes = {}
        if rnd.random() < 0.15:
            outcomes[1] = "fail"                    # regeneration fails
        ops.append(inv(tg, outcomes))
    ops.append(inv())
    ops.append(inv())
    return scenario("regen-%d" % idx, ops, fam="regen", versions=versions, cdir=rnd.choice(["", "", "proj"]))


def regen_pool_history(rnd, idx, tier):
    """Regeneration changes how the pools are declared (C04 x C17): the depth is lowered or
    raised, a pool appears or goes away.  What is enforced after the reload must be what the
    text now on disk declares.  Several independent pooled steps are dirty and -j is large, so the
    declared depth is the binding limit."""
    fname = "build.ninja"
    nst = rnd.randint(3, 5)
    def version(depth, use_pool, cmdv):
        steps = [step([fname], ["gen.in"], cmd="regen v%d" % cmdv, eff={"kind": "gen", "gen": "cur", "reads": []})]
        for i in range(1, nst + 1):
            steps.append(step(["o%d" % i], ["s%d" % i], cmd="cmd%d" % i, pool="pl" if use_pool else ""))
        return graph(steps, pools=[("pl", depth)] if depth is not None else [])
    a, b = rnd.choice([((3, True), (1, True)), ((2, True), (1, True)), ((0, True), (1, True)),
                       ((None, False), (1, True)), ((1, True), (3, True)), ((2, True), (None, False)),
                       ((4, True), (2, True))])
    gs = [version(a[0], a[1], 1), version(b[0], b[1], 2), version(b[0], b[1], 2)]
    versions = {}
    for k, g in enumerate(gs):
        for s in g["steps"]:
            if s["eff"]["kind"] == "gen":
                s["eff"]["gen"] = "v%d" % min(k + 1, len(gs) - 1)
        versions["v%d" % k] = {"text": render_manifest(g), "g": g, "extra": []}
    ops = [{"op": "manifest", "name": fname, "ver": "v0"}, {"op": "write", "path": "gen.in"}]
    for i in range(1, nst + 1):
        ops.append({"op": "write", "path": "s%d" % i})
    order = list(range(1, nst + 2)); rnd.shuffle(order)
    pol = {"kind": "all"} if rnd.random() < 0.5 else {"kind": "prio", "order": order}
    # first invocation: the generator has no record, runs, writes v1; everything else is built
    # under the pools v1 declares
    ops.append(invoke([], j=rnd.randint(3, 5), file=fname, policy=pol))
    ops.append({"op": "write", "path": "gen.in"})
    for i in range(1, nst + 1):
        if rnd.random() < 0.8:
            ops.append({"op": "write", "path": "s%d" % i})
    ops.append(invoke([], j=rnd.randint(3, 5), file=fname, policy={"kind": "prio", "order": order}))
    ops.append(invoke([], j=2, file=fname))
    return scenario("regenpool-%d" % idx, ops, fam="regen", versions=versions, max_orders=24)


def generate(seed, tier):
    rnd = random.Random(seed * 104729 + 7)
    n_hist = 500 if tier == "quick" else 12000
    n_regen = 200 if tier == "quick" else 4000
    scns = [history(rnd, i, tier) for i in range(n_hist)]
    scns += [regen_history(rnd, i, tier) for i in range(n_regen)]
    scns += [regen_pool_history(rnd, i, tier) for i in range(40 if tier == "quick" else 600)]
    return scns
