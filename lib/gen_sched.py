"""Scenario generators for the scheduler engine (E1): single test invocations whose
completion orders are enumerated or sampled.  Families mirror N2Work.tla's Init families.
"""
import itertools, random
from n2gen import *

KINDS = ["none", "ex", "oo", "val"]

def small_graph(n, ek, phonies, pools, twos, depth, effs, nosrc=()):
    steps = []
    for j in range(1, n + 1):
        # (steps in nosrc have no source of their own when another step feeds them: their only
        # ordering input is a generated file)
        own = not (j in nosrc and any(ek.get((i, j)) == "ex" for i in range(1, n + 1)))
        ins = ["s%d" % j] if own else []; imp = []; oo = []; val = []
        for i in range(1, n + 1):
            k = ek.get((i, j), "none")
            if k == "ex":
                ins.append("o%d" % i)
            elif k == "oo":
                oo.append("o%d" % i)
            elif k == "val":
                val.append("o%d" % i)
        outs = ["o%d" % j]
        iouts = ["x%d" % j] if j in twos else []
        steps.append(step(outs, ins, imp, oo, val, iouts=iouts, phony=(j in phonies),
                          pool=pools.get(j, ""), cmd="cmd%d" % j,
                          eff={"kind": effs.get(j, "write"), "reads": []}))
    return graph(steps, pools=[("p", depth)] if depth is not None else [])

def sched_scenario(id, g, n, dirty, outcomes, j, k, targets, fam="sched", pre_build=True,
                   max_orders=None, repeat=True):
    """Build everything once (all ok), make the chosen steps dirty by touching their private
    source, then run the test invocation under every completion order, then once more."""
    ops = [manifest_op(g)]
    for f in sources(g):
        ops.append({"op": "write", "path": f})
    if pre_build:
        ops.append(invoke([], j=4))
    for d in sorted(dirty):
        ops.append({"op": "write", "path": "s%d" % d})
    ops.append(invoke(targets, j=j, k=k, outcomes=outcomes, policy={"kind": "all"}))
    if repeat:
        ops.append(invoke(targets, j=j, k=0))
    return scenario(id, ops, fam=fam, max_orders=max_orders)

def exhaustive_small(seed, tier):
    """All graphs over 3 steps x parameters, by family; quick = seeded subsample."""
    rnd = random.Random(seed)
    n = 3
    fwd = [(i, j) for i in range(1, n + 1) for j in range(1, n + 1) if i < j]
    allp = [(i, j) for i in range(1, n + 1) for j in range(1, n + 1) if i != j]
    outs = ["o%d" % i for i in range(1, n + 1)]
    scns = []
    # family order
    fam = []
    for kinds in itertools.product(KINDS, repeat=len(fwd)):
        ek = dict(zip(fwd, kinds))
        for ph in range(8):
            phon = {i + 1 for i in range(n) if ph >> i & 1}
            for d in range(8):
                dirty = {i + 1 for i in range(n) if d >> i & 1}
                for t in range(1, 8):
                    tg = [outs[i] for i in range(n) if t >> i & 1]
                    fam.append(("order", ek, phon, dirty, tg))
    take = fam if tier == "thorough" else rnd.sample(fam, 700)
    for idx, (f, ek, phon, dirty, tg) in enumerate(take):
        effs = {i: rnd.choice(["write", "keep"]) for i in range(1, n + 1)}
        tw = {1} if rnd.random() < 0.3 else set()
        g = small_graph(n, ek, phon, {}, tw, None, effs)
        scns.append(sched_scenario("ord-%d" % idx, g, n, dirty, {}, rnd.choice([1, 2]), 0, tg))
    # family fail
    fam = []
    for kinds in itertools.product(["none", "ex", "val"], repeat=len(fwd)):
        ek = dict(zip(fwd, kinds))
        for oc in itertools.product(["ok", "fail", "intr"], repeat=n):
            for j in (1, 2):
                for k in (0, 1, 2):
                    fam.append((ek, oc, j, k))
    take = fam if tier == "thorough" else rnd.sample(fam, 500)
    for idx, (ek, oc, j, k) in enumerate(take):
        nosrc = {i for i in range(1, n + 1) if rnd.random() < 0.5}
        g = small_graph(n, ek, set(), {}, set(), None, {}, nosrc=nosrc)
        outcomes = {i + 1: oc[i] for i in range(n) if oc[i] != "ok"}
        scns.append(sched_scenario("fail-%d" % idx, g, n, {1, 2, 3}, outcomes, j, k, [],
                                   pre_build=False))
    # family pool
    fam = []
    for kinds in itertools.product(["none", "ex"], repeat=len(fwd)):
        ek = dict(zip(fwd, kinds))
        for pl in itertools.product(["", "p", "console", "q"], repeat=n):
            for dp in (0, 1, 2):
                for oc in itertools.product(["ok", "fail"], repeat=n):
                    for j in (1, 2, 3):
                        fam.append((ek, pl, dp, oc, j))
    take = fam if tier == "thorough" else rnd.sample(fam, 600)
    for idx, (ek, pl, dp, oc, j) in enumerate(take):
        pools = {i + 1: pl[i] for i in range(n) if pl[i]}
        g = small_graph(n, ek, set(), pools, set(), dp, {})
        outcomes = {i + 1: oc[i] for i in range(n) if oc[i] != "ok"}
        scns.append(sched_scenario("pool-%d" % idx, g, n, {1, 2, 3}, outcomes, j, 0, [],
                                   pre_build=False))
    # family cycle
    fam = []
    for kinds in itertools.product(["none", "ex", "val"], repeat=len(allp)):
        ek = dict(zip(allp, kinds))
        for tg in (["o1"], []):
            fam.append((ek, tg))
    take = fam if tier == "thorough" else rnd.sample(fam, 300)
    for idx, (ek, tg) in enumerate(take):
        g = small_graph(n, ek, set(), {}, set(), None, {})
        scns.append(sched_scenario("cyc-%d" % idx, g, n, {1, 2, 3}, {}, 2, 0, tg, pre_build=False,
                                   repeat=False))
    return scns

def random_graph(rnd, n, pools_decl, allow_phony=True, val_p=0.15, oo_p=0.15, ex_p=0.3):
    """Random DAG (validation edges may also point forward).  Generator domain (DESIGN
    appendix B): no duplicate inputs on a line, phony outputs never used as dirtying inputs
    of commands, regular files only."""
    protos = []
    outs_by_step = []
    phony_outs = set()
    for j in range(1, n + 1):
        ins = []; imp = []; oo = []; val = []
        if rnd.random() < 0.8:
            ins.append("s%d" % j)
        if rnd.random() < 0.2:
            imp.append("h%d" % rnd.randint(1, 3))   # shared source
        for i in range(1, j):
            r = rnd.random()
            o = rnd.choice(outs_by_step[i - 1])
            if r < ex_p:
                (ins if rnd.random() < 0.7 else imp).append(o)
            elif r < ex_p + oo_p:
                oo.append(o)
            elif r < ex_p + oo_p + val_p:
                val.append(o)
            # a step may use several outputs of one producer, in the same or in different roles
            rest = [x for x in outs_by_step[i - 1] if x != o]
            if r < ex_p + oo_p + val_p and rest and rnd.random() < 0.5:
                rnd.choice([ins, imp, oo, val]).append(rnd.choice(rest))
        if rnd.random() < 0.1 and j < n:
            val.append("o%d" % rnd.randint(j + 1, n))
        phony = allow_phony and rnd.random() < 0.15
        outs = ["o%d" % j]
        iouts = []
        if not phony:
            if rnd.random() < 0.2:
                # output directories are shared between steps (two of them for the whole graph)
                outs.append("d%d/p%d" % (j % 2, j))
            if rnd.random() < 0.15:
                iouts.append("x%d" % j)
        else:
            phony_outs.add("o%d" % j)
        outs_by_step.append(outs + iouts)
        pool = ""
        if not phony and pools_decl and rnd.random() < 0.5:
            pool = rnd.choice([p for p, _ in pools_decl] + ["console"])
        eff = {"kind": rnd.choice(["write", "write", "write", "keep"]), "reads": []}
        # a command that fails may clean up after itself: it removes its (then empty) output
        # directories, which n2 has to create again for whoever needs them next
        eff["cleandir"] = rnd.random() < 0.6
        protos.append(dict(outs=outs, iouts=iouts, ins=ins, imp=imp, oo=oo, val=val,
                           phony=phony, pool=pool, eff=eff, j=j))
    steps = []
    for p in protos:
        if not p["phony"]:
            moved = [f for f in p["ins"] + p["imp"] if f in phony_outs]
            p["ins"] = [f for f in p["ins"] if f not in phony_outs]
            p["imp"] = [f for f in p["imp"] if f not in phony_outs]
            p["oo"] = p["oo"] + moved
        seen = set()
        for role in ("ins", "imp", "oo", "val"):
            new = []
            for f in p[role]:
                if f not in seen:
                    seen.add(f); new.append(f)
            p[role] = new
        steps.append(step(p["outs"], p["ins"], p["imp"], p["oo"], p["val"], iouts=p["iouts"],
                          phony=p["phony"], pool=p["pool"], cmd="cmd%d" % p["j"], eff=p["eff"]))
    return graph(steps, pools=pools_decl)

def random_sched(seed, tier):
    rnd = random.Random(seed * 7919 + 13)
    count = 400 if tier == "quick" else 6000
    scns = []
    for idx in range(count):
        n = rnd.randint(4, 9)
        pools_decl = []
        if rnd.random() < 0.6:
            pools_decl = [("p", rnd.randint(1, 3))]
            if rnd.random() < 0.4:
                pools_decl.append(("q", rnd.randint(0, 2)))
        g = random_graph(rnd, n, pools_decl)
        if rnd.random() < 0.4:
            spell_paths(g, rnd)
        allouts = [o for s in g["steps"] for o in s["outs"]]
        if rnd.random() < 0.3:
            g["defaults"] = rnd.sample(allouts, rnd.randint(1, 2))
        ops = [manifest_op(g)]
        for f in sources(g):
            ops.append({"op": "write", "path": f})
        order = list(range(1, n + 1)); rnd.shuffle(order)
        ops.append(invoke([], j=rnd.randint(1, 4), policy={"kind": "prio", "order": order}))
        # edits
        srcs = sources(g)
        for f in rnd.sample(srcs, min(len(srcs), rnd.randint(0, 3))):
            ops.append({"op": "write", "path": f})
        if rnd.random() < 0.3:
            ops.append({"op": "rm", "path": rnd.choice(allouts)})
        # test invocation
        outcomes = {}
        for s in range(1, n + 1):
            r = rnd.random()
            if r < 0.15:
                outcomes[s] = "fail"
            elif r < 0.18:
                outcomes[s] = "intr"
        targets = []
        if rnd.random() < 0.5:
            targets = rnd.sample(allouts, rnd.randint(1, 2))
        order = list(range(1, n + 1)); rnd.shuffle(order)
        j = rnd.randint(1, 4)
        k = rnd.choice([0, 0, 1, 2, 3])
        if rnd.random() < 0.25:
            pol = {"kind": "all"}
        else:
            pol = {"kind": "prio", "order": order}
        def spelled(inv):
            # the same files, spelled differently on the command line
            argv = inv["argv"]
            nt = len(inv["targets"])
            if nt:
                sp = []
                for t in inv["targets"]:
                    x = rnd.choice(SPELLINGS)(t) if rnd.random() < 0.5 else t
                    add_spell(g, x, t); sp.append(x)
                inv["argv"] = argv[:len(argv) - nt] + sp
            return inv
        ops.append(spelled(invoke(targets, j=j, k=k, outcomes=outcomes, policy=pol)))
        ops.append(spelled(invoke(targets, j=j, k=0, policy={"kind": "prio", "order": order},
                                  explain=rnd.random() < 0.5)))
        ops.append(invoke(targets, j=j, k=0))
        scns.append(scenario("rnd-%d" % idx, ops, fam="sched", max_orders=24))
    return scns

def hold_family(seed, tier):
    """A step must not wait for its validation target: the target's command is not allowed
    to finish before the step has finished."""
    rnd = random.Random(seed + 5)
    scns = []
    count = 30 if tier == "quick" else 300
    for idx in range(count):
        # chain a -> b (explicit), validation target v hangs off a or b, v may itself depend on b's output
        extra = rnd.randint(0, 2)
        steps = [step(["a"], ["sa"], cmd="cmd-a"),
                 step(["b"], ["a"], val=["v"], cmd="cmd-b"),
                 step(["v"], ["sv"] + (["a"] if rnd.random() < 0.5 else []), cmd="cmd-v")]
        pairs = [(3, 2)]
        if rnd.random() < 0.5:
            steps.append(step(["c"], ["b"], cmd="cmd-c"))
            pairs.append((3, 4))
        g = graph(steps)
        ops = [manifest_op(g)] + [{"op": "write", "path": f} for f in sources(g)]
        tg = ["c"] if len(steps) == 4 else ["b"]
        ops.append(invoke(tg, j=rnd.choice([2, 3]), policy={"kind": "hold", "pairs": pairs}))
        scns.append(scenario("hold-%d" % idx, ops, fam="hold"))
    return scns

def valfail_family(seed, tier):
    """Validation edges and failures together (C05, C01): a step whose only ordering input is a
    generated file, with a validation target hanging off it, while the producer of the input
    fails / the validation target fails / both succeed, under every completion order."""
    scns = []
    idx = 0
    for with_e in (False, True):
        for extra_src in (False, True):
            for oa in ("ok", "fail"):
                for ov in ("ok", "fail"):
                    for vdep in (False, True):
                        steps = [step(["a"], ["sa"], cmd="cmd-a"),
                                 step(["v"], ["sv"] + (["a"] if vdep else []), cmd="cmd-v"),
                                 step(["d"], ["a"] + (["sd"] if extra_src else []), val=["v"], cmd="cmd-d")]
                        if with_e:
                            steps.append(step(["e"], ["d"], cmd="cmd-e"))
                        g = graph(steps)
                        ops = [manifest_op(g)] + [{"op": "write", "path": f} for f in sources(g)]
                        outcomes = {}
                        if oa == "fail":
                            outcomes[1] = "fail"
                        if ov == "fail":
                            outcomes[2] = "fail"
                        ops.append(invoke(["e"] if with_e else ["d"], j=2, k=0, outcomes=outcomes, policy={"kind": "all"}))
                        ops.append(invoke([], j=2, k=0))
                        scns.append(scenario("valfail-%d" % idx, ops, fam="sched", max_orders=24)); idx += 1
    return scns

def args_family(seed, tier):
    """Target strings of any shape on the command line (C12, C18): none of them names a file
    of the manifest, so each must be rejected as an unknown path."""
    weird = ["", " ", ".", "..", "/", "//", "a/", "./nonexistent", "x" * 5000,
             "d/" * 70 + "f", "../" * 70 + "f", "\u00e9t\u00e9", "$x", "a\\b", "o1/", "o1/.", "-", "o1 o1"]
    scns = []
    g = graph([step(["o1"], ["s1"], cmd="cmd1")])
    for i, wt in enumerate(weird):
        ops = [manifest_op(g), {"op": "write", "path": "s1"}]
        inv = invoke([wt], j=1)
        inv["argv"] = ["-j", "1", "--", wt] if wt.startswith("-") else ["-j", "1", wt]
        ops.append(inv)
        if i % 3 == 0:
            inv2 = invoke(["o1", wt], j=1)
            inv2["argv"] = ["-j", "1", "o1", wt] if not wt.startswith("-") else ["-j", "1", "--", "o1", wt]
            ops.append(inv2)
        scns.append(scenario("args-%d" % i, ops, fam="sched"))
    return scns

def outdir_family(seed, tier):
    """Output directories (C16): steps that share output directories, some of whose commands fail
    and clean up after themselves (they remove the directory n2 made for them, it being empty).
    n2 has to make the directory again for every later step that writes there.  No preparatory
    build: the directories do not exist when the invocation starts."""
    rnd = random.Random(seed * 31 + 17)
    scns = []
    count = 60 if tier == "quick" else 600
    for idx in range(count):
        n = rnd.randint(2, 5)
        steps = []
        dirs = ["dd", "dd/sub", "ee"]
        for i in range(1, n + 1):
            d = rnd.choice(dirs[:2] if rnd.random() < 0.8 else dirs)
            outs = ["%s/o%d" % (d, i)]
            if rnd.random() < 0.3:
                outs.append("%s/x%d" % (rnd.choice(dirs), i))
            ins = ["s%d" % i]
            oo = []
            if i > 1 and rnd.random() < 0.4:
                oo.append(steps[rnd.randint(0, i - 2)]["outs"][0])
            steps.append(step(outs, ins, oo=oo, cmd="mk%d" % i, eff={"kind": "write", "reads": [], "cleandir": True}))
        g = graph(steps)
        ops = [manifest_op(g)] + [{"op": "write", "path": f} for f in sources(g)]
        outcomes = {s: "fail" for s in range(1, n + 1) if rnd.random() < 0.45}
        if not outcomes:
            outcomes[rnd.randint(1, n)] = "fail"
        ops.append(invoke([], j=rnd.randint(1, 2), k=0, outcomes=outcomes, policy={"kind": "all"}))
        ops.append(invoke([], j=2, k=0))
        scns.append(scenario("outdir-%d" % idx, ops, fam="sched", max_orders=12))
    return scns

def poolmix_family(seed, tier):
    """Pools whose members are partly up to date (C04): an up-to-date member is settled
    (Ready -> Done without running) while other members of its pool run or wait for a slot; it
    must neither take nor give back a slot.  The clean members hang (order-only or explicitly)
    off a dirty step outside the pool, so they are checked in the middle of the invocation."""
    rnd = random.Random(seed * 131 + 3)
    scns = []
    count = 80 if tier == "quick" else 1500
    for idx in range(count):
        depth = rnd.choice([1, 1, 2])
        ngate = rnd.randint(1, 2)
        nmem = rnd.randint(3, 5)
        steps = []; dirty = []
        for gi in range(1, ngate + 1):
            steps.append(step(["g%d" % gi], ["sg%d" % gi], cmd="gate%d" % gi, eff={"kind": "keep", "reads": []}))
            dirty.append("sg%d" % gi)
        nclean = 0
        for mi in range(1, nmem + 1):
            clean = rnd.random() < 0.45
            ins = ["sm%d" % mi]; oo = []
            if clean or rnd.random() < 0.3:
                gate = "g%d" % rnd.randint(1, ngate)
                (oo if rnd.random() < 0.6 else ins).append(gate)
            if not clean:
                dirty.append("sm%d" % mi)
            else:
                nclean += 1
            pool = "p" if rnd.random() < 0.85 else rnd.choice(["", "console"])
            steps.append(step(["m%d" % mi], ins, oo=oo, cmd="mem%d" % mi, pool=pool,
                              eff={"kind": "write", "reads": []}))
        g = graph(steps, pools=[("p", depth)])
        # (every other scenario writes the steps with one shared rule and per-build `pool = $p`)
        ops = [manifest_op(g, style={"sharedrule": idx % 2 == 1})] + [{"op": "write", "path": f} for f in sources(g)]
        ops.append(invoke([], j=4))
        for f in dirty:
            ops.append({"op": "write", "path": f})
        n = len(steps)
        outcomes = {s: "fail" for s in range(ngate + 1, n + 1) if rnd.random() < 0.1}
        ops.append(invoke([], j=rnd.randint(2, 4), k=0, outcomes=outcomes, policy={"kind": "all"}))
        ops.append(invoke([], j=2, k=0))
        scns.append(scenario("poolmix-%d" % idx, ops, fam="sched", max_orders=40))
    return scns

def generate(seed, tier):
    return exhaustive_small(seed, tier) + random_sched(seed, tier) + hold_family(seed, tier) \
        + args_family(seed, tier) + outdir_family(seed, tier) + poolmix_family(seed, tier) \
        + valfail_family(seed, tier)
