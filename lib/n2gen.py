"""Scenario construction helpers: declared graphs, manifest text, invocations.

A declared graph `g` is the oracle's view of a manifest (canonical names, roles); the
manifest text is one spelling of it.  See DESIGN.md appendix D.
"""
import json

def step(outs, ins=(), imp=(), oo=(), val=(), iouts=(), phony=False, pool="", cmd=None,
         desc="", depfile="", msvc=False, rsp="", rspc="", eff=None, idx=None):
    outs = list(outs); iouts = list(iouts)
    s = {
        "outs": outs + iouts, "nxo": len(outs),
        "ins": list(ins) + list(imp), "nxi": len(ins),
        "oo": list(oo), "val": list(val),
        "phony": bool(phony), "pool": pool,
        "cmd": "" if phony else (cmd if cmd is not None else "cmd-%s" % "+".join(outs + iouts)),
        "desc": desc, "depfile": depfile, "msvc": bool(msvc),
        "rsp": rsp, "rspc": rspc, "hasrsp": bool(rsp),
        "eff": eff or {"kind": "write", "reads": []},
    }
    return s

def esc_path(p):
    return p.replace("$", "$$").replace(" ", "$ ").replace(":", "$:")

def esc_val(v):
    return v.replace("$", "$$")

def render_manifest(g, builddir=None):
    """Plain spelling of the declared graph."""
    lines = []
    if builddir:
        lines.append("builddir = %s" % builddir)
    for name, depth in g.get("pools", []):
        if name in ("", "console"):
            continue
        lines.append("pool %s" % name)
        lines.append("  depth = %d" % depth)
    for i, s in enumerate(g["steps"]):
        rule = "phony"
        if not s["phony"]:
            rule = "r%d" % (i + 1)
            lines.append("rule %s" % rule)
            lines.append("  command = %s" % esc_val(s["cmd"]))
            if s["desc"]:
                lines.append("  description = %s" % esc_val(s["desc"]))
            if s["depfile"]:
                lines.append("  depfile = %s" % esc_val(s["depfile"]))
            if s["msvc"]:
                lines.append("  deps = msvc")
            if s["hasrsp"]:
                lines.append("  rspfile = %s" % esc_val(s["rsp"]))
                lines.append("  rspfile_content = %s" % esc_val(s["rspc"]))
            if s["pool"]:
                lines.append("  pool = %s" % s["pool"])
        outs = s["outs"][:s["nxo"]]; iouts = s["outs"][s["nxo"]:]
        ins = s["ins"][:s["nxi"]]; imp = s["ins"][s["nxi"]:]
        b = "build " + " ".join(esc_path(p) for p in outs)
        if iouts:
            b += " | " + " ".join(esc_path(p) for p in iouts)
        b += ": " + rule
        if ins:
            b += " " + " ".join(esc_path(p) for p in ins)
        if imp:
            b += " | " + " ".join(esc_path(p) for p in imp)
        if s["oo"]:
            b += " || " + " ".join(esc_path(p) for p in s["oo"])
        if s["val"]:
            b += " |@ " + " ".join(esc_path(p) for p in s["val"])
        lines.append(b)
    for d in g.get("defaults", []):
        lines.append("default %s" % esc_path(d))
    return "\n".join(lines) + "\n"

def graph(steps, pools=(), defaults=()):
    return {"steps": list(steps), "pools": [list(p) for p in pools], "defaults": list(defaults)}

def manifest_op(g, name="build.ninja", text=None, extra=()):
    return {"op": "manifest", "name": name, "text": text if text is not None else render_manifest(g),
            "g": g, "extra": [list(e) for e in extra]}

def invoke(targets=(), j=2, k=0, adopt=False, file="build.ninja", outcomes=None, policy=None,
           crash=None, kill=None, extra_args=()):
    argv = []
    if file != "build.ninja":
        argv += ["-f", file]
    argv += ["-j", str(j)]
    if k:
        argv += ["-k", str(k)]
    if adopt:
        argv += ["-d", "ninja_compat", "-t", "restat"]
    argv += list(extra_args)
    argv += list(targets)
    op = {"op": "invoke", "argv": argv, "targets": list(targets), "j": j, "k": k, "adopt": adopt,
          "file": file, "outcomes": {str(a): b for a, b in (outcomes or {}).items()},
          "policy": policy or {"kind": "first"}}
    if crash:
        op["crash"] = crash
    if kill:
        op["kill"] = kill
    return op

def sources(g):
    """Files that are inputs of some step and outputs of none."""
    outs = set(o for s in g["steps"] for o in s["outs"])
    res = []
    for s in g["steps"]:
        for f in s["ins"] + s["oo"] + s["val"]:
            if f not in outs and f not in res:
                res.append(f)
    return res

def scenario(id, ops, fam="sched", versions=None, max_orders=None):
    s = {"id": id, "fam": fam, "ops": ops}
    if versions:
        s["versions"] = versions
    if max_orders:
        s["max_orders"] = max_orders
    return s

def dump(scns, path):
    with open(path, "w") as f:
        for s in scns:
            f.write(json.dumps(s, separators=(",", ":")) + "\n")
