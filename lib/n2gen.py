"""Scenario construction helpers: declared graphs, manifest text, invocations.

A declared graph `g` is the oracle's view of a manifest (canonical names, roles); the
manifest text is one spelling of it.  See DESIGN.md appendix D.
"""
import json

def step(outs, ins=(), imp=(), oo=(), val=(), iouts=(), phony=False, pool="", cmd=None,
         desc="", depfile="", msvc=False, rsp="", rspc="", eff=None, idx=None):
    outs = list(outs); iouts = list(iouts)
    s = {
        "outs": outs + iouts, "nxo": len(outs),
        "ins": list(ins) + list(imp), "nxi": len(ins),
        "oo": list(oo), "val": list(val),
        "phony": bool(phony), "pool": pool,
        "cmd": "" if phony else (cmd if cmd is not None else "cmd-%s" % "+".join(outs + iouts)),
        "desc": desc, "depfile": depfile, "msvc": bool(msvc),
        "rsp": rsp, "rspc": rspc, "hasrsp": bool(rsp),
        "eff": eff or {"kind": "write", "reads": []},
    }
    return s

def esc_path(p):
    return p.replace("$", "$$").replace(" ", "$ ").replace(":", "$:")

def esc_val(v):
    return v.replace("$", "$$")

def render_manifest(g, builddir=None, style=None):
    """One spelling of the declared graph.  style (all optional, none changes the graph):
      rule_prefix: name prefix of the generated rules
      comments:    interleave comment lines
      cmdvars:     bind each command to a file-level variable and reference it
      include:     (a, b) — statements of steps a..b (1-based, contiguous) go to `inc.ninja`
                   which is included in their place; returns (text, [(path, text)])
      blank:       blank lines between statements
      sharedrule:  plain steps share one rule whose command and pool are `$c` and `$p`, bound
                   in each build block
    """
    style = style or {}
    rp = style.get("rule_prefix", "r")
    main = []
    inc = []
    inc_range = style.get("include")
    builddir = builddir or g.get("builddir") or None
    if builddir:
        main.append("builddir = %s" % builddir)
    for name, depth in g.get("pools", []):
        if name in ("", "console"):
            continue
        main.append("pool %s" % name)
        main.append("  depth = %d" % depth)
    placed_include = False
    shared = bool(style.get("sharedrule"))
    if shared:
        # one rule for every plain step (no depfile, deps, response file or description): what
        # differs per step comes from the build block's own bindings
        main += ["rule %s_shared" % rp, "  command = $c", "  pool = $p"]
    for i, s in enumerate(g["steps"]):
        lines = []
        rule = "phony"
        block = []
        if style.get("comments"):
            lines.append("# step %d" % (i + 1))
        if shared and not s["phony"] and not (s["desc"] or s["depfile"] or s["msvc"] or s["hasrsp"]):
            rule = "%s_shared" % rp
            block.append("  c = %s" % esc_val(s["cmd"]))
            if s["pool"]:
                block.append("  p = %s" % s["pool"])
        elif not s["phony"]:
            rule = "%s%d" % (rp, i + 1)
            cmdref = esc_val(s["cmd"])
            if style.get("cmdvars"):
                lines.append("%s_cmd%d = %s" % (rp, i + 1, esc_val(s["cmd"])))
                cmdref = "${%s_cmd%d}" % (rp, i + 1)
            lines.append("rule %s" % rule)
            lines.append("  command = %s" % cmdref)
            if s["desc"]:
                lines.append("  description = %s" % esc_val(s["desc"]))
            if s["depfile"]:
                lines.append("  depfile = %s" % esc_val(s["depfile"]))
            if s["msvc"]:
                lines.append("  deps = msvc")
            if s["hasrsp"]:
                lines.append("  rspfile = %s" % esc_val(s["rsp"]))
                lines.append("  rspfile_content = %s" % esc_val(s["rspc"]))
            if s["pool"]:
                lines.append("  pool = %s" % s["pool"])
        outs = s["outs"][:s["nxo"]]; iouts = s["outs"][s["nxo"]:]
        ins = s["ins"][:s["nxi"]]; imp = s["ins"][s["nxi"]:]
        sp = s.get("spell", {})
        def P(p):
            return esc_path(sp.get(p, p))
        b = "build " + " ".join(P(p) for p in outs)
        if iouts:
            b += " | " + " ".join(P(p) for p in iouts)
        b += ": " + rule
        if ins:
            b += " " + " ".join(P(p) for p in ins)
        if imp:
            b += " | " + " ".join(P(p) for p in imp)
        if s["oo"]:
            b += " || " + " ".join(P(p) for p in s["oo"])
        if s["val"]:
            b += " |@ " + " ".join(P(p) for p in s["val"])
        lines.append(b)
        lines += block
        if style.get("blank"):
            lines.append("")
        if inc_range and inc_range[0] <= i + 1 <= inc_range[1]:
            if not placed_include:
                main.append("include inc.ninja")
                placed_include = True
            inc += lines
        else:
            main += lines
    for d in g.get("defaults", []):
        main.append("default %s" % esc_path(d))
    text = "\n".join(main) + "\n"
    if inc_range:
        return text, [("inc.ninja", "\n".join(inc) + "\n")]
    return text

def graph(steps, pools=(), defaults=()):
    return {"steps": list(steps), "pools": [list(p) for p in pools], "defaults": list(defaults),
            "spell": [], "builddir": ""}

SPELLINGS = [lambda p: "./" + p, lambda p: "zq/../" + p, lambda p: "./zq/.././" + p, lambda p: ".//" + p,
             lambda p: ".\\" + p, lambda p: "zq\\..\\" + p]

def add_spell(g, spelling, canonical):
    """Records that `spelling` was used for the file `canonical` somewhere in the scenario."""
    if spelling != canonical and [spelling, canonical] not in g.setdefault("spell", []):
        g["spell"].append([spelling, canonical])

def spell_paths(g, rnd, prob=0.25):
    """Spells some input and output paths of the manifest text non-canonically."""
    for s in g["steps"]:
        sp = s.setdefault("spell", {})
        for f in s["outs"] + s["ins"] + s["oo"] + s["val"]:
            if rnd.random() < prob and f not in sp:
                sp[f] = rnd.choice(SPELLINGS)(f)
                add_spell(g, sp[f], f)
    return g

def manifest_op(g, name="build.ninja", text=None, extra=(), style=None, builddir=None):
    if text is None:
        r = render_manifest(g, builddir=builddir, style=style)
        if isinstance(r, tuple):
            text, extra = r[0], list(extra) + r[1]
        else:
            text = r
    return {"op": "manifest", "name": name, "text": text, "g": g, "extra": [list(e) for e in extra]}

def invoke(targets=(), j=2, k=0, adopt=False, file="build.ninja", outcomes=None, policy=None,
           crash=None, kill=None, extra_args=(), explain=False, cdir=""):
    argv = []
    if cdir:
        argv += ["-C", cdir]
    if file != "build.ninja":
        argv += ["-f", file]
    argv += ["-j", str(j)]
    if k:
        argv += ["-k", str(k)]
    if adopt:
        argv += ["-d", "ninja_compat", "-t", "restat"]
    if explain:
        argv += ["-d", "explain"]
    argv += list(extra_args)
    argv += list(targets)
    op = {"op": "invoke", "argv": argv, "targets": list(targets), "j": j, "k": k, "adopt": adopt,
          "explain": bool(explain), "cdir": cdir,
          "file": file, "outcomes": {str(a): b for a, b in (outcomes or {}).items()},
          "policy": policy or {"kind": "first"}}
    if crash:
        op["crash"] = crash
    if kill:
        op["kill"] = kill
    return op

def sources(g):
    """Files that are inputs of some step and outputs of none."""
    outs = set(o for s in g["steps"] for o in s["outs"])
    res = []
    for s in g["steps"]:
        for f in s["ins"] + s["oo"] + s["val"]:
            if f not in outs and f not in res:
                res.append(f)
    return res

def scenario(id, ops, fam="sched", versions=None, max_orders=None, cdir=""):
    s = {"id": id, "fam": fam, "ops": ops}
    if cdir:
        # the project lives in a subdirectory; every invocation gets -C <cdir>
        s["cdir"] = cdir
        for o in ops:
            if o.get("op") == "invoke" and o.get("cdir", "") != cdir:
                o["cdir"] = cdir
                o["argv"] = ["-C", cdir] + o["argv"]
    if versions:
        s["versions"] = versions
    if max_orders:
        s["max_orders"] = max_orders
    return s

def dump(scns, path):
    with open(path, "w") as f:
        for s in scns:
            f.write(json.dumps(s, separators=(",", ":")) + "\n")
