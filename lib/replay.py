"""./check replay <file>: re-executes the scenario of a replay file against the current tree
and validates the trace again; exit 1 (with a VIOLATION line) if the same guard fails."""
import json, os, shutil, sys
import driver as D

def main(path, tier, seed):
    body = json.load(open(path))
    scn = body.get("scenario")
    if not scn:
        print("replay file carries no scenario (kind=%s): %s" % (body.get("kind"), body.get("detail")))
        return 2
    D.build_harness()
    wdir = os.path.join(D.WORK, "replay-%d" % os.getpid())
    shutil.rmtree(wdir, ignore_errors=True); os.makedirs(wdir)
    sp = os.path.join(wdir, "s.ndjson")
    with open(sp, "w") as f:
        f.write(json.dumps(scn) + "\n")
    res = D.run_harness_shards(sp, os.path.join(wdir, "t"), 1, 400)
    v = D.validate_trace(res[0]["trace"])
    idx = D.index_trace(res[0]["trace"])
    hits = [(p, t, l) for (p, t, l) in v["viol"] if p == body["property"]]
    for (p, t, l) in hits[:10]:
        s = D.scn_of_line(idx, l)
        print("  %s guard '%s' fails at event %d of run %s" % (p, t, l - s[0] + 1, s[1]))
    shutil.rmtree(wdir, ignore_errors=True)
    if hits:
        print("VIOLATION property=%s replay=%s" % (body["property"], path))
        return 1
    print("not reproduced on the current tree")
    return 0
