"""./check selftest — vacuity and binding self-tests (DESIGN section 9).

1. Planted defects in the specification: TLC must find a counterexample
   (N2Hist RuleBug = nodisc / nocmd / noouts / firstout; N2Log Recovery = asis).
2. Binding of the trace specification: recorded traces of the real code are corrupted
   (events swapped, fields changed, events dropped) and the corresponding label must appear;
   the uncorrupted trace must be accepted.
3. Non-vacuity: the coverage counters of the trace engines must all be positive for the
   guards each property relies on.
Exit 0 if every expectation is met, 2 otherwise (this is a test of the machinery, never a
verdict about n2).
"""
import json, os, shutil, subprocess
import driver as D

def expect_violation(name, module, cfg, invariant):
    rc, out, wall = D.run_tlc(os.path.join(D.SPEC, module), os.path.join(D.SPEC, cfg), workers=6, timeout=900, xmx="6g")
    ok = ("Invariant %s is violated" % invariant) in out
    print("%-34s %s (%.0fs)" % (name, "counterexample found, as required" if ok else "NO COUNTEREXAMPLE", wall))
    return ok

def corrupt(lines, how):
    ev = [json.loads(l) for l in lines]
    if how == "swap-start-finish":
        # a dependent's start moved before its producer's finish
        for i in range(len(ev) - 1):
            if ev[i]["e"] == "finish" and ev[i]["out"] == "ok":
                for j in range(i + 1, len(ev)):
                    if ev[j]["e"] == "start":
                        e = ev.pop(j); ev.insert(i, e)
                        return ev, ("C01", None)
    if how == "counts":
        for e in ev:
            if e["e"] == "pu" and sum(e["c"]) > 1:
                e["c"][4] += 1
                return ev, ("C19", None)
    if how == "drop-dbw":
        for i, e in enumerate(ev):
            if e["e"] == "dbw" and e.get("kind") == "build":
                ev.pop(i)
                return ev, ("C02", "no-record")
    if how == "j":
        for e in ev:
            if e["e"] == "invoke":
                e["j"] = 0
        return ev, ("C04", "j-exceeded")
    if how == "loaded":
        seen = 0
        for e in ev:
            if e["e"] == "work":
                seen += 1
                if seen == 2:
                    for b in e["builds"]:
                        if b["tok"]:
                            b["tok"] = "0000000000000000"
                            return ev, ("C08", "loaded")
    # -- the implementation view (N2Sched operators applied to the `set` events)
    if how == "set-counts":
        for e in ev:
            if e["e"] == "set" and e["new"] == "Queued":
                e["counts"][2] += 1
                return ev, ("CONF", "set-counts")
    if how == "set-pending":
        for e in ev:
            if e["e"] == "set" and e["new"] == "Done":
                e["pending"] += 1
                return ev, ("CONF", "set-pending")
    if how == "set-pools":
        for e in ev:
            if e["e"] == "set" and e["new"] == "Running" and e["pools"]:
                e["pools"][0][1] += 1
                return ev, ("CONF", "set-pools")
    if how == "drop-promotion":
        # the hook call for one Want -> Ready promotion removed: the model still owes it
        for i, e in enumerate(ev):
            if e["e"] == "set" and e["prev"] == "Want" and e["new"] == "Ready":
                ev.pop(i)
                return ev, ("CONF", "promotion-missed")
    if how == "early-ready":
        # a step wanted as Ready although its producer is not Done
        for e in ev:
            if e["e"] == "set" and e["prev"] == "Unknown" and e["new"] == "Want":
                e["new"] = "Ready"
                return ev, ("CONF", "set-guard")
    if how == "illegal-transition":
        for e in ev:
            if e["e"] == "set" and e["prev"] == "Ready" and e["new"] == "Queued":
                e["new"] = "Running"
                return ev, ("CONF", "set-illegal")
    if how == "model-ran":
        for e in ev:
            if e["e"] == "expect" and e["ran"]:
                e["ran"] = e["ran"][1:]
                return ev, ("C03", "model-ran-extra")
    if how == "explain-reason":
        for e in ev:
            if e["e"] == "pl" and e.get("x", {}).get("kind") == "missing":
                e["x"]["kind"] = "norec"
                return ev, ("CONF", "explain")
    if how == "explain-listing":
        for e in ev:
            if e["e"] == "pl" and e.get("x", {}).get("kind") == "sig" and e["x"]["ins"]:
                e["x"]["ins"][0][1] += 1
                return ev, ("CONF", "explain")
    if how == "explain-dropped":
        for i, e in enumerate(ev):
            if e["e"] == "pl" and e.get("x", {}).get("kind") in ("norec", "missing"):
                ev.pop(i)
                return ev, ("CONF", "explain")
    if how == "log-location":
        for e in ev:
            if e["e"] == "end":
                e["dbat"] = ["elsewhere/.n2_db"]
                return ev, ("C18", "log-location")
    if how == "model-summary":
        for e in ev:
            if e["e"] == "expect":
                e["nok"] += 1
                return ev, ("C19", "model-summary")
    if how == "exit":
        for e in ev:
            if e["e"] == "end":
                e["exit"] = 0 if e["exit"] else 1
        return ev, ("C05", None)
    return None, None

def run():
    ok = True
    print("== planted defects in the specification")
    for b, inv in (("nodisc", "C02"), ("nocmd", "C02"), ("noouts", "C02"), ("firstout", "C03")):
        ok &= expect_violation("N2Hist RuleBug=%s" % b, "N2Hist.tla", "MC_Hist_bug_%s.cfg" % b, inv)
    ok &= expect_violation("N2Hist RuleBug=noreload", "N2Hist.tla", "MC_Hist_bug_noreload.cfg", "C02")
    ok &= expect_violation("N2Log Recovery=asis", "N2Log.tla", "MC_Log_asis.cfg", "AlwaysLoadable")
    # the Apalache check must object when the arithmetic of BuildStates::set is wrong
    ad = os.path.join(D.WORK, "selftest-apalache-%d" % os.getpid())
    shutil.rmtree(ad, ignore_errors=True); os.makedirs(ad)
    core = open(os.path.join(D.SPEC, "SchedCore.tla")).read()
    bug = core.replace("- Cardinality({s \\in DOMAIN new : s \\notin phony /\\ iv.st[s] = x})",
                       "- Cardinality({s \\in DOMAIN new : iv.st[s] = x})")
    assert bug != core
    open(os.path.join(ad, "SchedCore.tla"), "w").write(bug)
    for f in ("SchedInd.tla", "SchedIndMC4.tla"):
        shutil.copy(os.path.join(D.SPEC, "apalache", f), os.path.join(ad, f))
    p = subprocess.run(["timeout", "900", "apalache-mc", "check", "--init=IndInit", "--length=1", "--next=Next",
                        "--inv=IndInv", "--cinit=CInit", "--out-dir=" + ad + "/out", "SchedIndMC4.tla"], cwd=ad,
                       stdout=subprocess.PIPE, stderr=subprocess.STDOUT, text=True)
    found = "The outcome is: Error" in p.stdout and "invariant" in p.stdout
    print("%-34s %s" % ("SchedCore: phony steps uncounted", "counterexample found by Apalache, as required" if found else "NO COUNTEREXAMPLE"))
    ok &= found
    shutil.rmtree(ad, ignore_errors=True)
    print("== binding of the trace specification")
    D.build_harness()
    import sys
    sys.path.insert(0, D.VERIF + "/lib")
    import gen_sched, n2gen
    wdir = os.path.join(D.WORK, "selftest-%d" % os.getpid())
    shutil.rmtree(wdir, ignore_errors=True); os.makedirs(wdir)
    g = n2gen.graph([n2gen.step(["a"], ["in"]), n2gen.step(["b"], ["a"]), n2gen.step(["c"], ["a"], pool="p"),
                     n2gen.step(["d"], ["b", "c"])], pools=[("p", 1)])
    ops = [n2gen.manifest_op(g), {"op": "write", "path": "in"},
           n2gen.invoke([], j=2, outcomes={3: "fail"}, explain=True), n2gen.invoke([], j=2, explain=True),
           {"op": "expect", "ran": ["c", "d"], "ok": True, "deps": [[], [], [], []], "recorded": [1, 2, 3, 4], "nok": 2},
           {"op": "write", "path": "in"},
           n2gen.invoke([], j=2, explain=True)]
    sp = os.path.join(wdir, "s.ndjson")
    n2gen.dump([n2gen.scenario("self", ops)], sp)
    res = D.run_harness_shards(sp, os.path.join(wdir, "t"), 1, 1)
    lines = open(res[0]["trace"]).read().splitlines()
    v = D.validate_trace(res[0]["trace"])
    clean = [x for x in v["viol"] if x[0] != "CONF"]
    print("%-34s %s" % ("uncorrupted trace", "accepted" if not v["viol"] else "REJECTED %s" % v["viol"][:3]))
    ok &= not v["viol"]
    for how in ("swap-start-finish", "counts", "drop-dbw", "j", "loaded", "exit", "set-counts", "set-pending",
                "set-pools", "drop-promotion", "early-ready", "illegal-transition", "model-ran",
                "explain-reason", "explain-listing", "explain-dropped", "log-location", "model-summary"):
        ev, (prop, tag) = corrupt(lines, how)
        if ev is None:
            print("%-34s could not be applied" % how); ok = False; continue
        tp = os.path.join(wdir, how + ".trace")
        with open(tp, "w") as f:
            for e in ev:
                f.write(json.dumps(e) + "\n")
        v = D.validate_trace(tp)
        hit = [x for x in v["viol"] if x[0] == prop and (tag is None or x[1] == tag)]
        print("%-34s %s" % ("corruption " + how, "label %s raised (%s)" % (prop, hit[0][1]) if hit else "NOT DETECTED"))
        ok &= bool(hit)
    print("== binding of the real-binary specification (ExecObs)")
    S = {"a": {"want": "ok", "ntok": 3, "tail": 0, "note": "", "hide": False, "free": False},
         "b": {"want": "fail", "ntok": 2, "tail": 0, "note": "", "hide": False, "free": False}}
    good = [["msg", "a"], ["msg", "b"], ["msg", "a"], ["pay", "a", 0, 2, 0], ["failed", "b"], ["pay", "b", 0, 1, 0]]
    frame = {"status": True, "bar": "=" * 10 + "-" * 5 + " " * 25, "done": 1, "total": 4, "failed": 0, "run": 2,
             "open": 3, "lines": [["task", 20, True], ["last", 12, True], ["task", 20, True]], "up": 4}
    cmd = {"e": "xcmd", "step": "a", "want": "echo", "argv": ["/bin/sh", "-c", "echo"], "cwd": "/x", "wantcwd": "/x",
           "stdin": "EOF", "fd0": "/dev/null", "probed": True, "fds": [0, 1, 2], "same12": True, "dirok": True,
           "hasrsp": False, "rspwant": "", "rspgot": ""}
    def con(items, exit=1):
        return {"e": "xcon", "items": items, "steps": S, "ran": ["a", "b"], "exit": exit, "fancy": False}
    cases = [
        ("accepted: console", con(good), None),
        ("output in two pieces", con(good[:3] + [["pay", "a", 0, 1, 0], ["pay", "a", 2, 2, 0]] + good[4:]), ("C16", "console-output")),
        ("output shown twice", con(good + [["msg", "a"], ["pay", "a", 0, 2, 0]]), ("C16", "console-output")),
        ("output missing", con(good[:2] + good[4:]), ("C16", "console-output")),
        ("summary after a failure", con(good + [["sum", "ran", 1]]), ("CONF", "console-summary-on-failure")),
        ("wrong summary count", {"e": "xcon", "items": [["msg", "a"], ["pay", "a", 0, 2, 0], ["sum", "ran", 2]],
                                 "steps": S, "ran": ["a"], "exit": 0, "fancy": False}, ("C19", "console-summary")),
        ("foreign text", con(good[:1] + [["other", "garbage"]] + good[1:]), ("CONF", "console-foreign-text")),
        ("accepted: frame", {"e": "xfancy", "cols": 20, "j": 2, "frames": [frame]}, None),
        ("bar of 39 cells", {"e": "xfancy", "cols": 20, "j": 2, "frames": [dict(frame, bar=frame["bar"][1:])]}, ("C20", "frame-bar-width")),
        ("task line wider than the terminal", {"e": "xfancy", "cols": 20, "j": 2,
                                               "frames": [dict(frame, lines=[["task", 21, True], ["last", 12, True], ["task", 20, True]])]}, ("C20", "frame-line-width")),
        ("line cut inside a character", {"e": "xfancy", "cols": 20, "j": 2,
                                         "frames": [dict(frame, lines=[["task", 20, False], ["last", 12, True], ["task", 20, True]])]}, ("C20", "frame-line-width")),
        ("cursor-up count", {"e": "xfancy", "cols": 20, "j": 2, "frames": [dict(frame, up=3)]}, ("CONF", "frame-cursor-up")),
        ("accepted: command", cmd, None),
        ("foreign descriptor", dict(cmd, fds=[0, 1, 2, 5]), ("C16", "descriptors")),
        ("stdin not at end of file", dict(cmd, stdin="DATA"), ("C16", "stdin")),
    ]
    for name, ev, want in cases:
        tp = os.path.join(wdir, "x.trace")
        with open(tp, "w") as f:
            f.write(json.dumps({"e": "xscn", "id": "self"}) + "\n" + json.dumps(ev) + "\n")
        rc, out, wall = D.run_tlc(D.SPEC + "/ExecObs.tla", D.SPEC + "/ExecObs.cfg", workers=1,
                                  env_extra={"TRACE": tp}, timeout=300, xmx="2g")
        v = D.parse_verdict(out)
        if v is None:
            print("%-34s TLC FAILED\n%s" % (name, out[-800:])); ok = False; continue
        labels = {(x[0], x[1]) for x in v["viol"]}
        good_case = (labels == set()) if want is None else (want in labels)
        print("%-34s %s" % (name, ("accepted" if want is None else "label %s %s raised" % want) if good_case
                            else "UNEXPECTED %s" % sorted(labels)))
        ok &= good_case
    shutil.rmtree(wdir, ignore_errors=True)
    print("selftest", "passed" if ok else "FAILED")
    return 0 if ok else 2
