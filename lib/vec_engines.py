"""Vector engines (E5): Canon (C13), Depfile (C15), Render (C20), NinjaManifest (C10 C11 C14)."""
import json, os, random
import driver as D

def _viol(prop, tag, fam, bad, extra=None):
    v = {"prop": prop, "tag": tag, "fam": fam, "kind": "vector", "scn": "%s/%s" % (fam, tag),
         "run": fam, "line": 0, "detail": bad}
    if extra:
        v.update(extra)
    return v

def canon_engine(tier, seed, wdir):
    t = "q" if tier == "quick" else "t"
    mc, vecs = D.tlc_vectors("canon-" + t, "Canon.tla", "MC_Canon_%s.cfg" % t, workers=6)
    # seeded longer paths: UTF-8 names, many components; expected value from the same rule
    # applied by the trace-free reference below is NOT used — these only check the laws the
    # specification states (idempotent, never longer) and freedom from panics.
    rnd = random.Random(seed)
    s = D.run_vectors("canon", vecs, wdir, "canon")
    viol = [_viol("C13", b["kind"], "canon", b) for b in s["bad"]]
    return {"mc": [mc], "results": [("canon", {k: s[k] for k in ("n", "nbad", "counts")})],
            "viol": viol, "nvec": s["n"], "nontrivial": s["counts"].get("changed", 0),
            "samples": vecs[:3] + vecs[len(vecs) // 2: len(vecs) // 2 + 2]}

def depfile_engine(tier, seed, wdir):
    res = []; viol = []; mcs = []; samples = []; n = 0; nontriv = 0
    for mode in ("structured", "structured3", "strings"):
        cfg = "MC_Depfile_%s_%s.cfg" % (mode, "q" if tier == "quick" else "t")
        mc, vecs = D.tlc_vectors("depfile-" + mode, "Depfile.tla", cfg, workers=6)
        mcs.append(mc)
        def real(x):
            return x.replace("~A", "\u00c5").replace("~a", "\u00e0").replace("~g", "\u516c")
        for v in vecs:
            v["text"] = real(v["text"])
            if "deps" in v:
                v["deps"] = [real(d) for d in v["deps"]]
        s = D.run_vectors("depfile", vecs, wdir, "dep-" + mode)
        res.append((mode, {k: s[k] for k in ("n", "nbad", "counts")}))
        n += s["n"]
        nontriv += s["counts"].get("multi_entry", 0) + s["counts"].get("rejected", 0)
        samples += vecs[:2]
        structured = mode.startswith("structured")
        for b in s["bad"]:
            tag = b["kind"]
            if b.get("dup"):
                tag = "dup-target-" + tag
            prop = "C15"
            viol.append(_viol(prop, tag, "depfile-" + mode, b))
            if b["kind"] in ("panic", "abort", "timeout"):
                viol.append(_viol("C12", "depfile-" + b["kind"], "depfile-" + mode, b))
    return {"mc": mcs, "results": res, "viol": viol, "nvec": n, "nontrivial": nontriv, "samples": samples}

def render_engine(tier, seed, wdir):
    res = []; viol = []; mcs = []; samples = []; n = 0; nontriv = 0
    for mode in ("task", "trunc", "bar"):
        cfg = "MC_Render_%s_%s.cfg" % (mode, "q" if tier == "quick" else "t")
        mc, vecs = D.tlc_vectors("render-" + mode, "Render.tla", cfg, workers=6)
        mcs.append(mc)
        s = D.run_vectors("render", vecs, wdir, "render-" + mode)
        res.append((mode, {k: s[k] for k in ("n", "nbad", "counts")}))
        n += s["n"]; nontriv += s["counts"].get("cut", 0) + (s["n"] if mode == "bar" else 0)
        samples += vecs[:2]
        for b in s["bad"]:
            viol.append(_viol("C20", "%s-%s" % (mode, b["kind"]), "render-" + mode, b))
    return {"mc": mcs, "results": res, "viol": viol, "nvec": n, "nontrivial": nontriv, "samples": samples}

UTF8 = {"~2": "\u00e9", "~3": "\u20ac", "~4": "\U0001d11e"}

def _utf(x):
    """Replaces the placeholders of multi-byte characters in texts and expectations."""
    if isinstance(x, str):
        for k, c in UTF8.items():
            x = x.replace(k, c)
        return x
    if isinstance(x, list):
        return [_utf(y) for y in x]
    if isinstance(x, dict):
        return {k: _utf(y) for k, y in x.items()}
    return x

def _manifest_vec(v, idx, fam):
    v = _utf(v)
    files = {}
    main = v["files"][0]["name"]
    for i, f in enumerate(v["files"]):
        text = f["text"]
        if i == 0 and not v.get("nl", True) and text.endswith("\n"):
            text = text[:-1]
        files[f["name"]] = text
    exp = v["expect"]
    if not exp["ok"]:
        e = {"ok": False, "errk": exp["errk"]}
        if exp.get("locs"):
            e["mentions"] = ["%s:%d" % (l[0], l[1]) for l in exp["locs"]]
        exp = e
    return {"id": "%s-%d" % (fam, idx), "main": main, "files": files, "expect": exp}

MANIFEST_FAMILIES = {"C10": ["shape", "attrs", "stmts"], "C11": ["scope"], "C14": ["dup"]}

def manifest_engine_for(prop):
    def run(tier, seed, wdir):
        res = []; viol = []; mcs = []; samples = []; n = 0; nontriv = 0
        for fam in MANIFEST_FAMILIES[prop]:
            cfg = "MC_Manifest_%s_%s.cfg" % (fam, "q" if tier == "quick" else "t")
            mc, vecs = D.tlc_vectors("manifest-" + fam, "NinjaManifest.tla", cfg, workers=6)
            mcs.append(mc)
            mv = [_manifest_vec(v, i, fam) for i, v in enumerate(vecs)]
            s = D.run_vectors("manifest", mv, wdir, "man-" + fam)
            res.append((fam, {k: s[k] for k in ("n", "nbad", "counts")}))
            n += s["n"]
            nontriv += len({json.dumps(m["expect"], sort_keys=True) for m in mv})
            samples += mv[:1] + mv[len(mv) // 2: len(mv) // 2 + 1]
            for b in s["bad"]:
                tag = b["kind"] + ("-" + b["field"] if b.get("field") else "")
                viol.append(_viol(prop, tag, "manifest-" + fam, b))
                if prop == "C10" and fam == "attrs" and b["kind"] == "field":
                    # rule attributes are expanded with $in / $out / $in_newline / $out_newline,
                    # build-block bindings and file scope: C11's rules as well
                    viol.append(_viol("C11", tag, "manifest-" + fam, b))
                if prop == "C11" and b["kind"] == "field":
                    # a mis-evaluated command, description or path is also "not the declared
                    # command / path of the step" (C10's statement)
                    viol.append(_viol("C10", tag, "manifest-" + fam, b))
                if b["kind"] in ("panic", "abort", "timeout"):
                    viol.append(_viol("C12", "manifest-" + b["kind"], "manifest-" + fam, b))
        return {"mc": mcs, "results": res, "viol": viol, "nvec": n, "nontrivial": nontriv,
                "samples": samples}
    return run

# ---------------------------------------------------------------------------
# C12 robustness: TLC-enumerated token strings + seeded byte mutations, loaded through
# load::read in a scratch directory.  Nothing is predicted but the shape of the outcome.

UTF = {"U2": "é", "U3": "€", "U4": "\U0001d11e"}

def _detok(text):
    for k, v in UTF.items():
        text = text.replace(k, v)
    return text

def _mutations(seed, count):
    import sys
    sys.path.insert(0, os.path.dirname(os.path.realpath(__file__)))
    import gen_sched, n2gen
    rnd = random.Random(seed * 9176 + 11)
    out = []
    seeds = []
    for i in range(12):
        g = gen_sched.random_graph(rnd, rnd.randint(2, 6), [("p", 2)])
        seeds.append(n2gen.render_manifest(g).encode())
    seeds.append(b"rule cc\n  command = cc $in -o $out\n  depfile = $out.d\n  deps = gcc\nbuild a.o: cc a.c | b.h || c.h |@ d\n  x = 1\ndefault a.o\ninclude other.ninja\n")
    junk = [b"\x00", b"\xff", b"\xc3", b"\xe2\x82", b"$", b"${", b"$\n", b"\r", b"\t", b"|", b"||", b"|@", b":", b"=",
            "é".encode() * 30, b"a" * 50, b"\n" * 3, b"build ", b"rule ", b"  "]
    for i in range(count):
        b = bytearray(rnd.choice(seeds))
        for _ in range(rnd.randint(1, 4)):
            op = rnd.random()
            pos = rnd.randint(0, len(b))
            if op < 0.4:
                j = rnd.choice(junk)
                b[pos:pos] = j
            elif op < 0.6 and len(b) > 0:
                del b[pos:pos + rnd.randint(1, 8)]
            elif op < 0.8 and len(b) > 0:
                p2 = min(len(b) - 1, pos)
                b[p2] = rnd.randint(0, 255)
            else:
                b = b[:pos]
        out.append({"id": "mut-%d" % i, "main": "build.ninja",
                    "files": {"build.ninja": list(b), "other.ninja": list(b"x = 1\n")}})
    # raw bytes
    for i in range(count // 4):
        n = rnd.randint(0, 40)
        out.append({"id": "raw-%d" % i, "main": "build.ninja",
                    "files": {"build.ninja": [rnd.choice([0, 9, 10, 13, 32, 36, 58, 61, 124, 35, 97, 195, 169, 255])
                                              for _ in range(n)]}})
    # long lines with multi-byte text around the excerpt window of the parse error
    for col in range(15, 70):
        for ch in ("é", "€", "\U0001d11e"):
            text = "x = " + ch * col + "$%\n"
            out.append({"id": "wide-%d" % col, "main": "build.ninja", "files": {"build.ninja": text}})
            text = ("a" * col) + ch * 30 + " $%\n"
            out.append({"id": "wide2-%d" % col, "main": "build.ninja", "files": {"build.ninja": text}})
    # deep paths and empty expansions in a manifest
    for n in (58, 59, 60, 61, 62, 100):
        p = "/".join("d%d" % i for i in range(n))
        out.append({"id": "deep-%d" % n, "main": "build.ninja",
                    "files": {"build.ninja": "rule r\n  command = c\nbuild %s: r\n" % p}})
    # a file that includes itself, directly or through others, by include or subninja
    for i, (a, b) in enumerate([("include build.ninja\n", None), ("subninja build.ninja\n", None),
                                ("x = 1\ninclude other.ninja\n", "subninja build.ninja\n"),
                                ("subninja other.ninja\n", "include other.ninja\n"),
                                ("include other.ninja\ninclude other.ninja\n", "y = 2\n")]):
        files = {"build.ninja": a}
        if b is not None:
            files["other.ninja"] = b
        out.append({"id": "cycle-%d" % i, "main": "build.ninja", "files": files})
    for text in ("rule r\n  command = c\nbuild $undefined: r\n", "include $nothing\n", "subninja $nothing\n",
                 "rule r\n  command = c\nbuild a: r $nothing\n", "default $nothing\n"):
        out.append({"id": "empty-exp", "main": "build.ninja", "files": {"build.ninja": text}})
    return out

def robust_engine(tier, seed, wdir):
    res = []; viol = []; mcs = []; samples = []; n = 0; nontriv = 0
    t = "q" if tier == "quick" else "t"
    for kind in ("wide", "small"):
        mc, vecs = D.tlc_vectors("tokens-" + kind, "NinjaTokens.tla", "MC_Tokens_%s_%s.cfg" % (kind, t), workers=6)
        mcs.append(mc)
        mv = [{"id": "tok-%s-%d" % (kind, i), "main": "build.ninja", "files": {"build.ninja": _detok(v["text"])}}
              for i, v in enumerate(vecs)]
        s = D.run_vectors("manifest", mv, wdir, "tok-" + kind)
        res.append((kind, {k: s[k] for k in ("n", "nbad", "counts")}))
        n += s["n"]; nontriv += s["counts"].get("rejected", 0)
        samples += mv[1000:1002]
        for b in s["bad"]:
            viol.append(_viol("C12", "manifest-" + b["kind"], "tokens-" + kind, b))
    muts = _mutations(seed, 3000 if tier == "quick" else 60000)
    s = D.run_vectors("manifest", muts, wdir, "mut")
    res.append(("mutations", {k: s[k] for k in ("n", "nbad", "counts")}))
    n += s["n"]; nontriv += s["counts"].get("rejected", 0)
    samples += [{"id": m["id"], "bytes": m["files"]["build.ninja"][:60]} for m in muts[:2]]
    for b in s["bad"]:
        tag = "manifest-" + b["kind"]
        bid = str(b.get("id", ""))
        if bid.startswith("deep-"):
            tag = "deep-path-" + b["kind"]
        elif bid == "empty-exp":
            tag = "empty-path-" + b["kind"]
        elif bid.startswith("cycle-"):
            tag = "include-cycle-" + b["kind"]
        elif bid.startswith("wide"):
            tag = "multibyte-excerpt-" + b["kind"]
        viol.append(_viol("C12", tag, "mutations", b))
    return {"mc": mcs, "results": res, "viol": viol, "nvec": n, "nontrivial": nontriv, "samples": samples}
