-------------------------------- MODULE Canon --------------------------------
(***************************************************************************)
(* Lexical path canonicalisation as n2 is required to perform it (C13),    *)
(* over paths given as sequences of characters.  Both '/' and '\' are      *)
(* separators; separators are kept as written.                             *)
(*                                                                         *)
(* Canon(p):  an optional leading separator is the root and is kept; then  *)
(* component by component: empty components and "." are dropped, ".."      *)
(* cancels the last remaining ordinary component (together with the        *)
(* separator that followed it) and is kept if there is none, an ordinary   *)
(* component is kept with the separator that follows it.  An empty result  *)
(* is ".".                                                                 *)
(*                                                                         *)
(* Loc(p) is an independent reading of what location a path denotes:       *)
(* whether it is rooted, how many levels it climbs above its start, the    *)
(* names below that, and whether it denotes a directory explicitly         *)
(* (trailing separator, or last component "." / "..").                     *)
(***************************************************************************)
EXTENDS Naturals, Sequences, FiniteSets, TLC, Json

CONSTANTS MaxLen, Alphabet

\* (defined here, not in the .cfg: the configuration parser does not process escapes)
Alpha4 == {"a", ".", "/", "\\"}

VARIABLE p
IsSep(c) == c \in {"/", "\\"}

RECURSIVE Str(_)
Str(s) == IF s = <<>> THEN "" ELSE Head(s) \o Str(Tail(s))

RECURSIVE Flat(_)
Flat(items) == IF items = <<>> THEN <<>> ELSE Head(items).chars \o Flat(Tail(items))

Drop(s, n) == SubSeq(s, n + 1, Len(s))

\* Length of the component starting at s[1], including the separator that follows it (if any).
RECURSIVE CompLen(_)
CompLen(s) == IF s = <<>> THEN 0 ELSE IF IsSep(s[1]) THEN 1 ELSE 1 + CompLen(Tail(s))

\* items: sequence of [chars, pop]; pop = TRUE for ordinary components (".." may cancel them).
RECURSIVE Walk(_, _)
Walk(rest, items) ==
  IF rest = <<>> THEN items
  ELSE IF IsSep(rest[1]) THEN Walk(Tail(rest), items)
  ELSE IF rest[1] = "." /\ Len(rest) = 1 THEN items
  ELSE IF rest[1] = "." /\ IsSep(rest[2]) THEN Walk(Drop(rest, 2), items)
  ELSE IF rest[1] = "." /\ rest[2] = "." /\ (Len(rest) = 2 \/ IsSep(rest[3])) THEN
         IF items # <<>> /\ items[Len(items)].pop
           THEN Walk(Drop(rest, 3), SubSeq(items, 1, Len(items) - 1))
           ELSE Walk(Drop(rest, 3),
                     Append(items, [chars |-> IF Len(rest) = 2 THEN <<".", ".">>
                                               ELSE <<".", ".", rest[3]>>, pop |-> FALSE]))
  ELSE LET n == CompLen(rest)
       IN Walk(Drop(rest, n), Append(items, [chars |-> SubSeq(rest, 1, n), pop |-> TRUE]))

Canon(q) ==
  LET root == IF IsSep(q[1]) THEN <<q[1]>> ELSE <<>>
      body == Flat(Walk(Drop(q, Len(root)), <<>>))
      out == root \o body
  IN IF out = <<>> THEN <<".">> ELSE out

---------------------------------------------------------------------------
\* Independent denotation.
RECURSIVE Comps(_, _)
Comps(s, cur) ==   \* the components of s (separators removed), cur = component being read
  IF s = <<>> THEN <<cur>>
  ELSE IF IsSep(s[1]) THEN <<cur>> \o Comps(Tail(s), <<>>)
  ELSE Comps(Tail(s), Append(cur, s[1]))

RECURSIVE Resolve(_, _, _)
Resolve(cs, ups, names) ==
  IF cs = <<>> THEN [ups |-> ups, names |-> names]
  ELSE LET c == Head(cs) IN
       IF c = <<>> \/ c = <<".">> THEN Resolve(Tail(cs), ups, names)
       ELSE IF c = <<".", ".">> THEN
              IF names # <<>> THEN Resolve(Tail(cs), ups, SubSeq(names, 1, Len(names) - 1))
              ELSE Resolve(Tail(cs), ups + 1, names)
       ELSE Resolve(Tail(cs), ups, Append(names, c))

Loc(q) ==
  LET cs == Comps(q, <<>>)
      r == Resolve(cs, 0, <<>>)
      lastc == cs[Len(cs)]
      dir == IsSep(q[Len(q)]) \/ lastc = <<".">> \/ lastc = <<".", ".">>
      here == r.ups = 0 /\ r.names = <<>>        \* the start directory (or the root) itself
  IN [root |-> IsSep(q[1]), ups |-> r.ups, names |-> r.names, dir |-> dir \/ here]

---------------------------------------------------------------------------
Inputs == UNION {[1..n -> Alphabet] : n \in 1..MaxLen}

Init == p \in Inputs
Next == UNCHANGED p
Spec == Init /\ [][Next]_p

\* The laws of C13.
Idempotent  == Canon(Canon(p)) = Canon(p)
NeverLonger == Len(Canon(p)) <= Len(p)
SameLoc     == Loc(Canon(p)) = Loc(p)
\* what is removed / kept
NoDotComps  == LET cs == Comps(Canon(p), <<>>) IN
                 Canon(p) # <<".">> =>
                   /\ \A i \in DOMAIN cs : cs[i] # <<".">>
                   /\ \A i \in 2..(Len(cs) - 1) : cs[i] # <<>>
UpsLead     == LET cs == Comps(Canon(p), <<>>) IN
                 \A i \in DOMAIN cs : cs[i] = <<".", ".">> =>
                    \A k \in 1..i : cs[k] = <<".", ".">> \/ (k = 1 /\ cs[k] = <<>>)

\* One (input, expected) vector per path, for the replay into canon::canonicalize_path.
Emit == PrintT(<<"VEC", ToJson([i |-> Str(p), o |-> Str(Canon(p))])>>)
=============================================================================
