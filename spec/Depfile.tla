------------------------------- MODULE Depfile -------------------------------
(***************************************************************************)
(* Makefile-style dependency files as compilers write them (C15).          *)
(*                                                                         *)
(* An abstract depfile is a sequence of entries [t, deps]; a spelling      *)
(* choice c fixes how it is written: spaces before the colon, what stands  *)
(* in the gaps (after the colon and between prerequisites: spaces or a     *)
(* backslash-newline continuation with or without a space before it),      *)
(* blank lines between entries, final newline.  The meaning of a depfile,  *)
(* Flatten(d), is all prerequisites of all entries in order and does not   *)
(* depend on c.  Render(d, c) is the text.                                 *)
(***************************************************************************)
EXTENDS Naturals, Sequences, FiniteSets, TLC, Json

CONSTANTS MaxEntries, MaxDeps, Mode   \* Mode = "structured" | "strings"
          , MaxLen

VARIABLE x

\* names as compilers write them, incl. Windows-style ones (a colon inside a path, backslashes)
\* (~A ~a ~g stand for the characters U+00C5, U+00E0, U+516C, whose UTF-8 encodings contain the
\* bytes 0x85 and 0xA0; the replay writes the real characters)
Names   == {"a.h", "d/b.h", "C:/w.h", "e\\f.h", "~Ac~a~g.h"}
Targets == {"o.o", "q/p.o"}

RECURSIVE SeqsUpTo(_, _)
SeqsUpTo(S, n) == IF n = 0 THEN {<<>>}
                  ELSE SeqsUpTo(S, n - 1) \cup {Append(q, e) : q \in SeqsUpTo(S, n - 1), e \in S}

Entries == {[t |-> t, deps |-> ds] : t \in Targets, ds \in SeqsUpTo(Names, MaxDeps)}
Files   == SeqsUpTo(Entries, MaxEntries) \ {<<>>}

Gaps == {" ", "   ", " \\\n  ", "\\\n "}
\* (a line of nothing but spaces is a blank line too; so is one after the last entry)
Choices == [colon : {"", "  "}, gap : Gaps, blank : {"", "\n", "  \n"}, final : {"\n", "", "\n  \n"}]

RECURSIVE Join(_, _)
Join(ds, gap) == IF ds = <<>> THEN "" ELSE gap \o Head(ds) \o Join(Tail(ds), gap)

RenderEntry(e, c) == e.t \o c.colon \o ":" \o Join(e.deps, c.gap)

RECURSIVE RenderFrom(_, _)
RenderFrom(d, c) ==
  IF Len(d) = 1 THEN RenderEntry(d[1], c) \o c.final
  ELSE RenderEntry(d[1], c) \o "\n" \o c.blank \o RenderFrom(Tail(d), c)
Render(d, c) == RenderFrom(d, c)

RECURSIVE Flatten(_)
Flatten(d) == IF d = <<>> THEN <<>> ELSE Head(d).deps \o Flatten(Tail(d))

DistinctTargets(d) == \A i, j \in DOMAIN d : i # j => d[i].t # d[j].t

---------------------------------------------------------------------------
\* Totality inputs: every string over a small alphabet.
Alpha == {"a", " ", ":", "\\", "\n"}
RECURSIVE Str(_)
Str(s) == IF s = <<>> THEN "" ELSE Head(s) \o Str(Tail(s))
Strings == UNION {[1..n -> Alpha] : n \in 1..MaxLen}

Init == IF Mode = "structured" THEN x \in (Files \X Choices) ELSE x \in Strings
Next == UNCHANGED x
Spec == Init /\ [][Next]_x

\* The meaning does not depend on the spelling (trivially, by construction of Flatten) and
\* every spelling is distinct text only through c: recorded so that TLC evaluates Render.
Emit ==
  IF Mode = "structured"
    THEN PrintT(<<"VEC", ToJson([text |-> Render(x[1], x[2]), deps |-> Flatten(x[1]),
                                 nent |-> Len(x[1]), dup |-> ~DistinctTargets(x[1])])>>)
    ELSE PrintT(<<"VEC", ToJson([text |-> Str(x)])>>)
=============================================================================
