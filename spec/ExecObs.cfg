SPECIFICATION Spec
INVARIANT Verdict
POSTCONDITION Consumed
CHECK_DEADLOCK FALSE
