------------------------------- MODULE ExecObs -------------------------------
(***************************************************************************)
(* What an execution of real commands by the real n2 binary must look      *)
(* like (C16, and the end-to-end clauses of C09, C15, C18, C20), stated    *)
(* over observations: what each command saw (its argv, working directory,  *)
(* standard input, open descriptors, output directories, response file),   *)
(* how its output appears in n2's own output (as runs of numbered tokens), *)
(* how n2 classified its termination, and how n2 itself exited.            *)
(*                                                                         *)
(* Same labelling scheme as TraceObs: every obligation is evaluated per    *)
(* event and a failed one is recorded as <<property, tag, event index>>.   *)
(***************************************************************************)
EXTENDS Naturals, Sequences, FiniteSets, TLC, Json, IOUtils

Rec == ndJsonDeserialize(IOEnv.TRACE)

VARIABLES l, viol, cov
vars == <<l, viol, cov>>

Lbl(ids, tag, ok) == IF ok THEN {} ELSE {<<id, tag, l>> : id \in ids}
Range(q) == {q[i] : i \in DOMAIN q}

Cov0 == [scn |-> 0, cmd |-> 0, out |-> 0, bigout |-> 0, res |-> 0, fail |-> 0, sig |-> 0,
         intr |-> 0, end |-> 0, fdprobe |-> 0, rsp |-> 0, parallel |-> 0, pty |-> 0, eq |-> 0]
Bump(c, f) == [c EXCEPT ![f] = @ + 1]
BumpIf(c, f, b) == IF b THEN Bump(c, f) ELSE c

Init == l = 1 /\ viol = {} /\ cov = Cov0

\* A command as its own shell saw it.
Cmd(ev) ==
  Lbl({"C16"}, "argv", ev.argv = <<"/bin/sh", "-c", ev.want>>)
  \cup Lbl({"C16", "C18"}, "cwd", ev.cwd = ev.wantcwd)
  \cup Lbl({"C16"}, "stdin", ev.stdin = "EOF" /\ ev.fd0 = "/dev/null")
  \cup Lbl({"C16"}, "descriptors", ev.probed => (Range(ev.fds) = {0, 1, 2} /\ ev.same12))
  \cup Lbl({"C16"}, "outdir", ev.dirok)
  \cup Lbl({"C16"}, "rspfile", ev.hasrsp => ev.rspgot = ev.rspwant)

\* The bytes a command wrote, as runs <<from, to>> of consecutive token numbers in the order
\* they appear in n2's output: exactly one run, complete, nothing of it elsewhere.
Out(ev) ==
  Lbl({"C16"}, "output-once-contiguous",
      IF ev.ntok = 0 THEN ev.runs = <<>>
      ELSE ev.runs = << <<0, ev.ntok - 1>> >>)
  \cup Lbl({"C16"}, "output-bytes", ev.tailok /\ ev.foreign = 0)
  \cup Lbl({"C09", "C16"}, "showincludes-filtered", ev.notes = 0)

\* How n2 classified the termination.
Res(ev) ==
  Lbl({"C16"}, "status", ev.got = ev.want)
  \cup Lbl({"C16"}, "signal-note", ev.wantnote # "" => ev.gotnote = ev.wantnote)

End(ev) ==
  Lbl({"C16", "C05"}, "exit", ev.exit = ev.wantexit)
  \cup Lbl({"C16"}, "ran-after-interrupt", ev.afterintr = <<>>)
  \cup Lbl({"C16"}, "ran-set", Range(ev.ran) = Range(ev.wantran))

\* Two runs that must not differ (pty vs pipe; -C vs cd).
Eq(ev) ==
  Lbl(Range(ev.props), ev.tag, ev.a = ev.b)

Ev == Rec[l]
Step ==
  /\ l <= Len(Rec)
  /\ l' = l + 1
  /\ LET ev == Ev IN
     CASE ev.e = "xscn" -> viol' = viol /\ cov' = Bump(cov, "scn")
       [] ev.e = "xcmd" -> /\ viol' = viol \cup Cmd(ev)
                           /\ cov' = BumpIf(BumpIf(Bump(cov, "cmd"), "fdprobe", ev.probed), "rsp", ev.hasrsp)
       [] ev.e = "xout" -> /\ viol' = viol \cup Out(ev)
                           /\ cov' = BumpIf(Bump(cov, "out"), "bigout", ev.ntok > 4096)
       [] ev.e = "xres" -> /\ viol' = viol \cup Res(ev)
                           /\ cov' = BumpIf(BumpIf(BumpIf(Bump(cov, "res"), "fail", ev.want = "fail"),
                                        "sig", ev.wantnote # ""), "intr", ev.want = "intr")
       [] ev.e = "xend" -> /\ viol' = viol \cup End(ev)
                           /\ cov' = BumpIf(Bump(cov, "end"), "parallel", ev.j > 1)
       [] ev.e = "xeq"  -> /\ viol' = viol \cup Eq(ev)
                           /\ cov' = BumpIf(Bump(cov, "eq"), "pty", ev.tag = "pty-isolation")
       [] OTHER -> viol' = viol /\ cov' = cov

Spec == Init /\ [][Step]_vars

Verdict ==
  l = Len(Rec) + 1 =>
    PrintT(<<"VERDICT", ToJson([events |-> Len(Rec), viol |-> viol, cov |-> cov])>>)
Consumed == TLCGet("stats").diameter - 1 = Len(Rec)
=============================================================================
