------------------------------- MODULE ExecObs -------------------------------
(***************************************************************************)
(* What an execution of real commands by the real n2 binary must look      *)
(* like (C16, and the end-to-end clauses of C09, C15, C18, C20), stated    *)
(* over observations: what each command saw (its argv, working directory,  *)
(* standard input, open descriptors, output directories, response file),   *)
(* how its output appears in n2's own output (as runs of numbered tokens), *)
(* how n2 classified its termination, and how n2 itself exited.            *)
(*                                                                         *)
(* Same labelling scheme as TraceObs: every obligation is evaluated per    *)
(* event and a failed one is recorded as <<property, tag, event index>>.   *)
(***************************************************************************)
EXTENDS Naturals, Sequences, FiniteSets, TLC, Json, IOUtils

Rec == ndJsonDeserialize(IOEnv.TRACE)

VARIABLES l, viol, cov
vars == <<l, viol, cov>>

Lbl(ids, tag, ok) == IF ok THEN {} ELSE {<<id, tag, l>> : id \in ids}
Range(q) == {q[i] : i \in DOMAIN q}

Cov0 == [scn |-> 0, cmd |-> 0, out |-> 0, bigout |-> 0, res |-> 0, fail |-> 0, sig |-> 0,
         intr |-> 0, end |-> 0, fdprobe |-> 0, rsp |-> 0, parallel |-> 0, pty |-> 0, eq |-> 0, con |-> 0, frames |-> 0, tracefile |-> 0]
Bump(c, f) == [c EXCEPT ![f] = @ + 1]
BumpIf(c, f, b) == IF b THEN Bump(c, f) ELSE c

Init == l = 1 /\ viol = {} /\ cov = Cov0

\* A command as its own shell saw it.
Cmd(ev) ==
  Lbl({"C16"}, "argv", ev.argv = <<"/bin/sh", "-c", ev.want>>)
  \cup Lbl({"C16", "C18"}, "cwd", ev.cwd = ev.wantcwd)
  \cup Lbl({"C16"}, "stdin", ev.stdin = "EOF" /\ ev.fd0 = "/dev/null")
  \cup Lbl({"C16"}, "descriptors", ev.probed => (Range(ev.fds) = {0, 1, 2} /\ ev.same12))
  \cup Lbl({"C16"}, "outdir", ev.dirok)
  \cup Lbl({"C16"}, "rspfile", ev.hasrsp => ev.rspgot = ev.rspwant)

\* The bytes a command wrote, as runs <<from, to>> of consecutive token numbers in the order
\* they appear in n2's output: exactly one run, complete, nothing of it elsewhere.
Out(ev) ==
  Lbl({"C16"}, "output-once-contiguous",
      IF ev.ntok = 0 THEN ev.runs = <<>>
      ELSE ev.runs = << <<0, ev.ntok - 1>> >>)
  \cup Lbl({"C16"}, "output-bytes", ev.tailok /\ ev.foreign = 0)
  \cup Lbl({"C09", "C16"}, "showincludes-filtered", ev.notes = 0)

\* How n2 classified the termination.
Res(ev) ==
  Lbl({"C16"}, "status", ev.got = ev.want)
  \cup Lbl({"C16"}, "signal-note", ev.wantnote # "" => ev.gotnote = ev.wantnote)

End(ev) ==
  Lbl({"C16", "C05"}, "exit", ev.exit = ev.wantexit)
  \cup Lbl({"C16"}, "ran-after-interrupt", ev.afterintr = <<>>)
  \cup Lbl({"C16"}, "ran-set", Range(ev.ran) = Range(ev.wantran))

---------------------------------------------------------------------------
\* The console protocol (progress_dumb.rs): what n2 prints on a plain (non-tty) stdout, as a
\* state machine over the items the output is made of.  The engine cuts the captured bytes
\* into items lexically — a known message line <<"msg", s>>, <<"failed", s>>, <<"intr", s>>, a
\* run of payload tokens of one command <<"pay", s, from, to, tail>>, a termination note
\* <<"note", text>>, the summary <<"sum", kind, n>>, an error line <<"err", text>>, anything else
\* <<"other", text>> — and this machine decides whether the sequence is one n2 may print:
\*   task_started:  the message of s (description, or the command line if there is none or -v)
\*   task_finished: success with output (and not hide_success): the message again unless s was
\*                  the last one started, then every byte of the output, once, in one piece;
\*                  failure: "failed: <message>", then the output (with the note for a signal);
\*                  interruption: "interrupted: <message>", then the output
\*   the summary is the last thing printed, and only by a successful invocation.
\* S: step name -> [want, ntok, tail, note, hide, free].
ConInit == [started |-> {}, paid |-> {}, hdr |-> "", last |-> "", prev |-> "", sum |-> FALSE,
            sumv |-> <<"none", 0>>, bad |-> {}]
HasOut(S, s) == S[s].ntok > 0 \/ S[s].tail > 0
ConBad(c, tag) == [c EXCEPT !.bad = @ \cup {tag}, !.hdr = "", !.prev = ""]
ConItem(c0, it, S) ==
  LET c == IF c0.sum THEN [c0 EXCEPT !.bad = @ \cup {"console-after-summary"}] ELSE c0
      kind == it[1]
      s == it[2]
      known == s \in DOMAIN S
      open == known /\ s \in c.started /\ s \notin c.paid
      \* (with -v the line task_started prints, the command, differs from the message repeated
      \* before the output, item "hdr"; otherwise both are the same text and arrive as "msg")
  IN CASE kind \in {"msg", "hdr"} ->
            IF ~known THEN ConBad(c, "console-message")
            ELSE IF s \notin c.started /\ kind = "msg"
              THEN [c EXCEPT !.started = @ \cup {s}, !.last = s, !.hdr = "", !.prev = ""]
            ELSE IF open /\ c.last # s /\ S[s].want = "ok" /\ HasOut(S, s) /\ c.hdr = ""
              \* (hide_success suppresses the output, not the message that precedes it)
              THEN IF S[s].hide THEN [c EXCEPT !.paid = @ \cup {s}, !.prev = ""]
                   ELSE [c EXCEPT !.hdr = s, !.prev = ""]
            ELSE ConBad(c, "console-message")
       [] kind \in {"failed", "intr"} ->
            IF open /\ c.hdr = "" /\ S[s].want = (IF kind = "failed" THEN "fail" ELSE "intr")
              THEN [c EXCEPT !.hdr = IF HasOut(S, s) THEN s ELSE "", !.prev = s,
                             !.paid = IF HasOut(S, s) THEN @ ELSE @ \cup {s}]
              ELSE ConBad(c, "console-failure-line")
       [] kind = "pay" ->
            IF /\ open /\ HasOut(S, s) /\ ~(S[s].hide /\ S[s].want = "ok")
               /\ (c.hdr = s \/ (c.hdr = "" /\ c.last = s /\ S[s].want = "ok"))
               /\ <<it[3], it[4], it[5]>> = <<0, S[s].ntok - 1, S[s].tail>>
              THEN [c EXCEPT !.paid = @ \cup {s}, !.hdr = "", !.prev = s]
              ELSE ConBad(c, "console-output-misplaced")
       [] kind = "note" ->
            IF c.prev # "" /\ c.hdr = "" /\ S[c.prev].note = s THEN [c EXCEPT !.prev = ""]
            ELSE ConBad(c, "console-note")
       [] kind = "sum" -> [c EXCEPT !.sum = TRUE, !.sumv = <<it[2], it[3]>>, !.bad = IF c.hdr = "" THEN @ ELSE @ \cup {"console-output-missing"}]
       [] kind = "err" -> [c EXCEPT !.prev = ""]
       \* text n2 itself puts in place of a failed command's output (e.g. a depfile parse error)
       [] kind = "other" /\ c.prev # "" /\ S[c.prev].free /\ S[c.prev].want = "fail" -> c
       [] OTHER -> ConBad(c, "console-foreign-text")

RECURSIVE ConFold(_, _, _, _)
ConFold(c, items, i, S) == IF i > Len(items) THEN c ELSE ConFold(ConItem(c, items[i], S), items, i + 1, S)

\* On a terminal (FancyConsoleProgress) nothing is printed when a command starts; what is flushed
\* between frames is the same finish protocol (message, then the output), so the machine starts
\* with every command that ran already announced.
Con(ev) ==
  LET S == ev.steps
      c == ConFold(IF ev.fancy THEN [ConInit EXCEPT !.started = Range(ev.ran)] ELSE ConInit,
                   ev.items, 1, S)
      ran == Range(ev.ran)
      \* every command that ran was announced; every one that printed something (and may show
      \* it) had its output shown
      owed == {s \in ran : HasOut(S, s) /\ ~(S[s].hide /\ S[s].want = "ok")}
      payTags == {"console-output-misplaced", "console-output-missing"}
      nok == Cardinality({s \in ran : S[s].want = "ok"})
  IN Lbl({"C16"}, "console-output", c.bad \cap payTags = {} /\ owed \subseteq c.paid /\ c.hdr = "")
     \cup Lbl({"C19"}, "console-summary",
            ev.exit = 0 => /\ c.sum
                           /\ c.sumv = (IF nok = 0 THEN <<"nowork", 0>> ELSE <<"ran", nok>>))
     \cup Lbl({"CONF"}, "console-summary-on-failure", c.sum => ev.exit = 0)
     \cup UNION {Lbl({"CONF"}, tag, FALSE) : tag \in c.bad \ payTags}
     \cup Lbl({"CONF"}, "console-unannounced", ran \subseteq c.started)

\* The frames FancyConsoleProgress draws on a terminal of ev.cols columns (progress_fancy.rs
\* print_progress): "[bar] d/t done, [f failed, ]r/o running", one line per running task (at most
\* eight) each optionally followed by the task's last output line, "...and N more", and a
\* cursor-up over exactly the lines drawn.  C20: the bar is exactly its nominal width and every
\* task line fits the terminal (in bytes) and is cut at a character boundary.
CountKind(f, k) == Cardinality({i \in DOMAIN f.lines : f.lines[i][1] = k})
Fancy(ev) ==
  LET F == {ev.frames[i] : i \in DOMAIN ev.frames}
      S == {f \in F : f.status}
  IN Lbl({"C20"}, "frame-bar-width", \A f \in S : Len(f.bar) = 40)
     \cup Lbl({"C20"}, "frame-line-width",
              \A f \in S : \A i \in DOMAIN f.lines :
                 f.lines[i][1] = "more" \/ (f.lines[i][2] <= ev.cols /\ f.lines[i][3]))
     \cup Lbl({"CONF"}, "frame-cursor-up", \A f \in S : f.up = 1 + Len(f.lines))
     \cup Lbl({"CONF"}, "frame-tasks",
              \A f \in S : /\ CountKind(f, "task") = (IF f.run > 8 THEN 8 ELSE f.run)
                            /\ CountKind(f, "more") = (IF f.run > 8 THEN 1 ELSE 0)
                            /\ CountKind(f, "last") <= CountKind(f, "task"))
     \cup Lbl({"C19"}, "frame-counts",
              \A f \in S : f.done <= f.total /\ f.failed <= f.done)
     \* (the task list is updated when a command starts, the counts once per scheduler round, so
     \* only the -j bound relates them reliably)
     \cup Lbl({"CONF"}, "frame-running", \A f \in S : f.run <= ev.j)

\* The performance trace (-d trace, trace.rs / task.rs ThreadIds): events <<name, tid, ts, dur, ph>>.
TraceFile(ev) ==
  LET E == ev.events
      I == DOMAIN E
      task == {i \in I : E[i][2] >= 1}
      overlap(a, b) == E[a][3] < E[b][3] + E[b][4] /\ E[b][3] < E[a][3] + E[a][4]
  IN Lbl({"CONF"}, "trace-json", ev.valid /\ \A i \in I : E[i][5] = "X" /\ E[i][3] >= 0 /\ E[i][4] >= 0)
     \cup Lbl({"CONF"}, "trace-tasks",
              /\ {E[i][1] : i \in task} = Range(ev.tasks)
              /\ Cardinality(task) = Len(ev.tasks))
     \cup Lbl({"CONF"}, "trace-lanes",
              \A a \in task : /\ E[a][2] <= ev.j
                               /\ \A b \in task : (a # b /\ overlap(a, b)) => E[a][2] # E[b][2])
     \cup Lbl({"CONF"}, "trace-main",
              E # <<>> /\ E[Len(E)][1] = "main" /\ E[Len(E)][2] = 0
                /\ \E i \in I : E[i][1] = "load::read" /\ E[i][2] = 0)

\* Two runs that must not differ (pty vs pipe; -C vs cd).
Eq(ev) ==
  Lbl(Range(ev.props), ev.tag, ev.a = ev.b)

Ev == Rec[l]
Step ==
  /\ l <= Len(Rec)
  /\ l' = l + 1
  /\ LET ev == Ev IN
     CASE ev.e = "xscn" -> viol' = viol /\ cov' = Bump(cov, "scn")
       [] ev.e = "xcmd" -> /\ viol' = viol \cup Cmd(ev)
                           /\ cov' = BumpIf(BumpIf(Bump(cov, "cmd"), "fdprobe", ev.probed), "rsp", ev.hasrsp)
       [] ev.e = "xout" -> /\ viol' = viol \cup Out(ev)
                           /\ cov' = BumpIf(Bump(cov, "out"), "bigout", ev.ntok > 4096)
       [] ev.e = "xres" -> /\ viol' = viol \cup Res(ev)
                           /\ cov' = BumpIf(BumpIf(BumpIf(Bump(cov, "res"), "fail", ev.want = "fail"),
                                        "sig", ev.wantnote # ""), "intr", ev.want = "intr")
       [] ev.e = "xend" -> /\ viol' = viol \cup End(ev)
                           /\ cov' = BumpIf(Bump(cov, "end"), "parallel", ev.j > 1)
       [] ev.e = "xcon" -> /\ viol' = viol \cup Con(ev)
                           /\ cov' = Bump(cov, "con")
       [] ev.e = "xfancy" -> /\ viol' = viol \cup Fancy(ev)
                             /\ cov' = [cov EXCEPT !.frames = @ + Len(ev.frames)]
       [] ev.e = "xtrace" -> /\ viol' = viol \cup TraceFile(ev)
                             /\ cov' = [cov EXCEPT !.tracefile = @ + Len(ev.events)]
       [] ev.e = "xeq"  -> /\ viol' = viol \cup Eq(ev)
                           /\ cov' = BumpIf(Bump(cov, "eq"), "pty", ev.tag = "pty-isolation")
       [] OTHER -> viol' = viol /\ cov' = cov

Spec == Init /\ [][Step]_vars

Verdict ==
  l = Len(Rec) + 1 =>
    PrintT(<<"VERDICT", ToJson([events |-> Len(Rec), viol |-> viol, cov |-> cov])>>)
Consumed == TLCGet("stats").diameter - 1 = Len(Rec)
=============================================================================
