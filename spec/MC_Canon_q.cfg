CONSTANTS
  MaxLen = 7
  Alphabet <- Alpha4
SPECIFICATION Spec
INVARIANTS Idempotent NeverLonger SameLoc NoDotComps UpsLead Emit
CHECK_DEADLOCK FALSE
