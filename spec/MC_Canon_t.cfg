CONSTANTS
  MaxLen = 9
  Alphabet <- Alpha4
SPECIFICATION Spec
INVARIANTS Idempotent NeverLonger SameLoc NoDotComps UpsLead Emit
CHECK_DEADLOCK FALSE
