CONSTANTS
  MaxEntries = 3
  MaxDeps = 1
  MaxLen = 8
  Mode = "strings"
SPECIFICATION Spec
INVARIANTS Emit
CHECK_DEADLOCK FALSE
