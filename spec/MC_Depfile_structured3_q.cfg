CONSTANTS
  MaxEntries = 3
  MaxDeps = 1
  MaxLen = 6
  Mode = "structured"
SPECIFICATION Spec
INVARIANTS Emit
CHECK_DEADLOCK FALSE
