CONSTANTS
  MaxEntries = 3
  MaxDeps = 2
  MaxLen = 8
  Mode = "structured"
SPECIFICATION Spec
INVARIANTS Emit
CHECK_DEADLOCK FALSE
