CONSTANTS
  MaxEntries = 2
  MaxDeps = 2
  MaxLen = 6
  Mode = "structured"
SPECIFICATION Spec
INVARIANTS Emit
CHECK_DEADLOCK FALSE
