CONSTANTS
  MaxEntries = 3
  MaxDeps = 1
  MaxLen = 8
  Mode = "structured"
SPECIFICATION Spec
INVARIANTS Emit
CHECK_DEADLOCK FALSE
