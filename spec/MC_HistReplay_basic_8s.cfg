CONSTANTS
  MaxOps = 8
  Variant = "basic"
  Record = TRUE
  RuleBug = "none"
SPECIFICATION Spec
INVARIANTS TypeOK Emit
ACTION_CONSTRAINT ReplayShape
CHECK_DEADLOCK FALSE
