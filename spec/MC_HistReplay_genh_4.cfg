CONSTANTS
  MaxOps = 4
  Variant = "genh"
  Record = TRUE
  RuleBug = "none"
SPECIFICATION Spec
INVARIANTS TypeOK Emit
ACTION_CONSTRAINT ReplayShape
CHECK_DEADLOCK FALSE
