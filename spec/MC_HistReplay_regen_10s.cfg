CONSTANTS
  MaxOps = 10
  Variant = "regen"
  Record = TRUE
  RuleBug = "none"
SPECIFICATION Spec
INVARIANTS TypeOK Emit
ACTION_CONSTRAINT ReplayShape
CHECK_DEADLOCK FALSE
