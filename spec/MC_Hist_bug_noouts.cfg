CONSTANTS
  MaxOps = 6
  Variant = "basic"
  Record = FALSE
  RuleBug = "noouts"
SPECIFICATION Spec
INVARIANTS TypeOK C02 C03 C09 C08
CHECK_DEADLOCK FALSE
