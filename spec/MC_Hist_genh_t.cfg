CONSTANTS
  MaxOps = 5
  Variant = "genh"
  Record = FALSE
  RuleBug = "none"
SPECIFICATION Spec
INVARIANTS TypeOK C02 C03 C09 C08
CHECK_DEADLOCK FALSE
