CONSTANTS
  MaxOps = 4
  Variant = "regen"
  Record = FALSE
  RuleBug = "none"
SPECIFICATION Spec
INVARIANTS TypeOK C02 C03 C09 C08 C17
CHECK_DEADLOCK FALSE
