CONSTANTS
  MaxRecs = 4
  Recovery = "asis"
SPECIFICATION Spec
INVARIANTS AlwaysLoadable NeverCorrupt IntactSurvive NothingInvented
CHECK_DEADLOCK FALSE
