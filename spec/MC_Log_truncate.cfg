CONSTANTS
  MaxRecs = 4
  Recovery = "truncate"
SPECIFICATION Spec
INVARIANTS AlwaysLoadable NeverCorrupt IntactSurvive NothingInvented
CHECK_DEADLOCK FALSE
