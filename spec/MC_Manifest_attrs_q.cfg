CONSTANTS
  Family = "attrs"
  Quick = TRUE
SPECIFICATION Spec
INVARIANTS DupLaw Emit
CHECK_DEADLOCK FALSE
