CONSTANTS
  Family = "dup"
  Quick = FALSE
SPECIFICATION Spec
INVARIANTS DupLaw Emit
CHECK_DEADLOCK FALSE
