CONSTANTS
  Family = "scope"
  Quick = TRUE
SPECIFICATION Spec
INVARIANTS DupLaw Emit
CHECK_DEADLOCK FALSE
