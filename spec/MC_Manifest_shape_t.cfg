CONSTANTS
  Family = "shape"
  Quick = FALSE
SPECIFICATION Spec
INVARIANTS DupLaw Emit
CHECK_DEADLOCK FALSE
