CONSTANTS
  MaxChars = 4
  Mode = "bar"
SPECIFICATION Spec
INVARIANTS Laws Emit
CHECK_DEADLOCK FALSE
