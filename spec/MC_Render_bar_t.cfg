CONSTANTS
  MaxChars = 5
  Mode = "bar"
SPECIFICATION Spec
INVARIANTS Laws Emit
CHECK_DEADLOCK FALSE
