CONSTANTS
  MaxChars = 4
  Mode = "task"
SPECIFICATION Spec
INVARIANTS Laws Emit
CHECK_DEADLOCK FALSE
