CONSTANTS
  MaxChars = 5
  Mode = "task"
SPECIFICATION Spec
INVARIANTS Laws Emit
CHECK_DEADLOCK FALSE
