CONSTANTS
  MaxChars = 4
  Mode = "trunc"
SPECIFICATION Spec
INVARIANTS Laws Emit
CHECK_DEADLOCK FALSE
