CONSTANTS
  MaxChars = 5
  Mode = "trunc"
SPECIFICATION Spec
INVARIANTS Laws Emit
CHECK_DEADLOCK FALSE
