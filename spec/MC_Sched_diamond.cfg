CONSTANTS
  N = 4
  Family = "diamond"
  Quick = FALSE
SPECIFICATION Spec
INVARIANTS
  TypeOK C01 C01Internal C04 C04Error C05Contained C05Exit C05KeepGoing C05FailExit
  C06NoBug C06Error C06Cycle C06NoValWait C18 C19 Bookkeeping
PROPERTIES
  LegalTransitions C01NoRestart C05Budget C19Monotone C06Terminates
CHECK_DEADLOCK FALSE
