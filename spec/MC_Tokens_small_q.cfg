CONSTANTS
  MaxLen = 4
  Tier = "small"
SPECIFICATION Spec
INVARIANTS Emit
CHECK_DEADLOCK FALSE
