CONSTANTS
  MaxLen = 5
  Tier = "small"
SPECIFICATION Spec
INVARIANTS Emit
CHECK_DEADLOCK FALSE
