CONSTANTS
  MaxLen = 3
  Tier = "wide"
SPECIFICATION Spec
INVARIANTS Emit
CHECK_DEADLOCK FALSE
