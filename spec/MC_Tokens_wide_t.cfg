CONSTANTS
  MaxLen = 4
  Tier = "wide"
SPECIFICATION Spec
INVARIANTS Emit
CHECK_DEADLOCK FALSE
