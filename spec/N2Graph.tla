------------------------------- MODULE N2Graph -------------------------------
(***************************************************************************)
(* The declared build graph of a manifest, as the properties talk about it *)
(* (steps, files in roles, pools), and the derived notions every other     *)
(* module uses: producers, ordering closure, wanted closure, cycles.       *)
(*                                                                         *)
(* A graph g is a record                                                   *)
(*   [steps    |-> sequence of step records,                               *)
(*    pools    |-> sequence of <<name, depth>>,                            *)
(*    defaults |-> sequence of file names]                                 *)
(* and a step record is                                                    *)
(*   [outs |-> explicit ++ implicit outputs, nxo |-> #explicit outputs,    *)
(*    ins  |-> explicit ++ implicit ("dirtying") inputs, nxi |-> #explicit,*)
(*    oo   |-> order-only inputs, val |-> validation inputs,               *)
(*    phony |-> BOOLEAN, pool |-> name ("" = default pool),                *)
(*    cmd, desc, depfile, msvc, rsp, rspc, hasrsp]                         *)
(* File names are canonical.  Steps are identified by their position.      *)
(* The same records are used by the model-checking modules (where Init     *)
(* builds them) and by the trace specification (where they come from the   *)
(* scenario generator through the trace).                                  *)
(***************************************************************************)
EXTENDS Naturals, Sequences, FiniteSets

Range(q) == {q[i] : i \in DOMAIN q}

StepIds(g)     == DOMAIN g.steps
Outs(g, s)     == Range(g.steps[s].outs)
DirtyIns(g, s) == Range(g.steps[s].ins)
OrdIns(g, s)   == Range(g.steps[s].ins) \cup Range(g.steps[s].oo)
ValIns(g, s)   == Range(g.steps[s].val)
AllIns(g, s)   == OrdIns(g, s) \cup ValIns(g, s)
IsPhony(g, s)  == g.steps[s].phony
PoolOf(g, s)   == g.steps[s].pool

AllOuts(g)  == UNION {Outs(g, s) : s \in StepIds(g)}
AllFiles(g) == AllOuts(g) \cup UNION {AllIns(g, s) : s \in StepIds(g)}

ProducersOf(g, f) == {s \in StepIds(g) : f \in Outs(g, s)}
HasProducer(g, f) == ProducersOf(g, f) # {}

\* Steps producing an ordering (explicit, implicit, order-only) input of s.
OrdProd(g, s) == UNION {ProducersOf(g, f) : f \in OrdIns(g, s)}
\* Steps producing a validation input of s.
ValProd(g, s) == UNION {ProducersOf(g, f) : f \in ValIns(g, s)}

RECURSIVE Close(_, _, _)
Close(g, S, withVal) ==
  LET N == S \cup UNION {OrdProd(g, s) \cup (IF withVal THEN ValProd(g, s) ELSE {}) : s \in S}
  IN  IF N = S THEN S ELSE Close(g, N, withVal)

\* Every step that transitively produces an ordering input of s (phony ones included).
TransProducers(g, s) == Close(g, OrdProd(g, s), FALSE)

\* Steps s such that p is a transitive ordering producer of s.
TransDependents(g, p) == {s \in StepIds(g) : p \in TransProducers(g, s)}

\* The steps needed for a set of files: closure over ordering AND validation inputs.
Needed(g, T) == Close(g, UNION {ProducersOf(g, t) : t \in T}, TRUE)

OnOrdCycle(g, s) == s \in TransProducers(g, s)
OrdCycleIn(g, S) == \E s \in S : OnOrdCycle(g, s)

\* Pool depth: 0 = bounded by -j only, -1 = not declared.
DeclaredPool(g, p) == \E i \in DOMAIN g.pools : g.pools[i][1] = p
PoolDepth(g, p) ==
  IF DeclaredPool(g, p)
    THEN g.pools[CHOOSE i \in DOMAIN g.pools : g.pools[i][1] = p][2]
    ELSE IF p = "" THEN 0 ELSE IF p = "console" THEN 1 ELSE 0 - 1

\* Each file has at most one producing step.
WellFormed(g) == \A f \in AllOuts(g) : Cardinality(ProducersOf(g, f)) = 1

\* Phase-2 targets of an invocation (files), given the command-line names (canonical),
\* the manifest name, and whether unknown names are skipped (adopt mode).
TargetFiles(g, names, mfile) ==
  IF names # <<>> THEN Range(names) \ {mfile}
  ELSE IF g.defaults # <<>> THEN Range(g.defaults)
  ELSE AllFiles(g) \ {mfile}

SeqWithout(q, S) == SelectSeq(q, LAMBDA x : x \notin S)

RECURSIVE DedupFrom(_, _)
DedupFrom(q, seen) ==
  IF q = <<>> THEN <<>>
  ELSE IF Head(q) \in seen THEN DedupFrom(Tail(q), seen)
       ELSE <<Head(q)>> \o DedupFrom(Tail(q), seen \cup {Head(q)})
Dedup(q) == DedupFrom(q, {})
=============================================================================
