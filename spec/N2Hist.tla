------------------------------- MODULE N2Hist -------------------------------
(***************************************************************************)
(* Histories: what persists between invocations (file tree, build log,     *)
(* manifest on disk) under user edits, and what one invocation makes of    *)
(* it.  An invocation is one atomic action here: once ordering (C01) holds *)
(* its result does not depend on the schedule, so it is computed by        *)
(* visiting the wanted steps in a topological order with the manifest rule *)
(* of N2Store (the same operators the trace specification evaluates on the *)
(* mirrored store of the real code).                                       *)
(*                                                                         *)
(* File contents are provenance terms: a source edit makes a fresh term; a *)
(* command's output is <<command line, response file, terms of the inputs  *)
(* it reads>>.  Clean(f) is the term a from-scratch build would produce    *)
(* now.  C02 says: after a successful invocation every output in the       *)
(* requested closure carries Clean.                                        *)
(***************************************************************************)
EXTENDS N2Store, TLC, Json

CONSTANTS
  MaxOps,       \* bound on the length of a history (user operations + invocations)
  Variant,      \* which project family
  RuleBug,      \* "none" | a planted defect of the manifest rule (self-test: TLC must object)
  Record        \* TRUE: carry the history of operations (with the outcome this model predicts
                \* for every invocation) so that behaviours can be printed and replayed into the
                \* real n2; FALSE in the exhaustive configurations (a history variable makes
                \* every path a distinct state)

VARIABLES
  file,     \* name -> [mt, ver]  (mt = 0: missing)
  log,      \* sequence of records [outs, deps, sig, tok]
  mver,     \* index of the manifest version on disk
  reads,    \* step output name -> sequence of headers its command reads (and will report)
  clock,    \* logical time of the last write
  nops,
  last,     \* outcome of the last invocation: [ok, ran, targets, fresh] (fresh: nothing changed since)
  vouched,  \* a -t restat invocation happened: the user, not n2, answers for the outputs (C02
            \* does not quantify over such histories)
  hist,     \* the operations so far (only when Record)
  plan      \* variant "regen": the manifest version the generator writes when it next runs
            \* (a function of the generator's input, which the user edits)

vars == <<file, log, mver, reads, clock, nops, last, vouched, hist, plan>>

---------------------------------------------------------------------------
\* The project: sources a, b, header h (read, not declared), generated header gh.
S(outs, ins, oo, cmd, dep) ==
  [outs |-> outs, nxo |-> Len(outs), ins |-> ins, nxi |-> Len(ins), oo |-> oo, val |-> <<>>,
   phony |-> FALSE, pool |-> "", cmd |-> cmd, desc |-> "", depfile |-> dep, msvc |-> FALSE,
   rsp |-> "", rspc |-> "", hasrsp |-> FALSE]
G(steps) == [steps |-> steps, pools |-> <<>>, defaults |-> <<>>]

StepO1(cmd) == S(<<"o1">>, <<"a">>, <<>>, cmd, "o1.d")
StepO2     == S(<<"o2">>, <<"o1", "b">>, <<>>, "link", "")
StepGH     == S(<<"gh">>, <<"gh.in">>, <<>>, "genh", "")
StepO1G(cmd) == S(<<"o1">>, <<"a">>, <<"gh">>, cmd, "o1.d")
StepO12    == S(<<"o1", "x1">>, <<"a">>, <<>>, "cc1", "o1.d")
\* the manifest itself is the output of a generator step
MF         == "build.ninja"
StepGen    == S(<<MF>>, <<"gen.in">>, <<>>, "regen", "")

\* Manifest versions over a common set of file names.
Versions ==
  CASE Variant = "basic" ->
         << G(<<StepO1("cc1"), StepO2>>),          \* 1
            G(<<StepO1("cc2"), StepO2>>),          \* 2: command text of o1 edited
            G(<<StepO2, StepO1("cc1")>>),          \* 3: = 1 reordered (identity preserving)
            G(<<StepO1("cc1")>>) >>                \* 4: step o2 removed
    [] Variant = "genh" ->
         << G(<<StepGH, StepO1G("cc1"), StepO2>>),
            G(<<StepO2, StepGH, StepO1G("cc1")>>) >>
    [] Variant = "regen" ->
         << G(<<StepGen, StepO1("cc1"), StepO2>>),    \* 1
            G(<<StepGen, StepO1("cc2"), StepO2>>),    \* 2: the generator changes a command
            G(<<StepGen, StepO1("cc1")>>),            \* 3: ... removes a step
            G(<<StepO2, StepO1("cc1"), StepGen>>),    \* 4: ... reorders the statements
            G(<<StepGen, StepO1("cc1"),               \* 5: ... rewires: o2 no longer uses o1
                S(<<"o2">>, <<"b">>, <<>>, "link", "")>>) >>
    [] Variant = "outs" ->
         << G(<<StepO12, StepO2>>),                \* o1 and x1 from one step
            G(<<StepO1("cc1"), StepO2>>),          \* x1 dropped: the old record must not apply
            G(<<StepO1("cc1"), S(<<"x1">>, <<"b">>, <<>>, "cx", ""), StepO2>>) >>  \* x1 moved

Sources == CASE Variant = "genh" -> {"a", "b", "h", "gh.in"}
             [] Variant = "regen" -> {"a", "b", "h", "gen.in"}
             [] OTHER -> {"a", "b", "h"}
Headers(g, s) == IF "gh" \in OrdIns(g, s) THEN {"h", "gh"} ELSE {"h"}
Cur == Versions[mver]
SetSeq(X) == CHOOSE q \in [1..Cardinality(X) -> X] : Range(q) = X

Mt == [f \in DOMAIN file |-> file[f].mt]
VerOf(f) == IF f \in DOMAIN file /\ file[f].mt # 0 THEN file[f].ver ELSE <<"missing", f>>

ReadsOf(g, s) == LET o == g.steps[s].outs[1] IN
                 IF g.steps[s].depfile # "" /\ o \in DOMAIN reads THEN reads[o] ELSE <<>>

\* What the command of step s produces from the current tree.
Term(g, fl, s) ==
  LET v(f) == IF f \in DOMAIN fl /\ fl[f].mt # 0 THEN fl[f].ver ELSE <<"missing", f>>
  IN << g.steps[s].cmd,
        [i \in DOMAIN g.steps[s].ins |-> v(g.steps[s].ins[i])],
        [i \in DOMAIN ReadsOf(g, s) |-> v(ReadsOf(g, s)[i])] >>

\* What a from-scratch build of the current sources and manifest would produce for f.
RECURSIVE Clean(_, _)
Clean(g, f) ==
  IF ~HasProducer(g, f) THEN VerOf(f)
  ELSE LET s == CHOOSE x \in ProducersOf(g, f) : TRUE
       IN << g.steps[s].cmd,
             [i \in DOMAIN g.steps[s].ins |-> Clean(g, g.steps[s].ins[i])],
             [i \in DOMAIN ReadsOf(g, s) |-> Clean(g, ReadsOf(g, s)[i])] >>

---------------------------------------------------------------------------
\* The manifest rule, with planted defects for the self-test.
SigB(g, mt, s, deps) ==
  CASE RuleBug = "nodisc" -> <<Stamp(mt, g.steps[s].ins), g.steps[s].cmd, Stamp(mt, g.steps[s].outs)>>
    [] RuleBug = "nocmd"  -> <<Stamp(mt, g.steps[s].ins), Stamp(mt, deps), Stamp(mt, g.steps[s].outs)>>
    [] RuleBug = "noouts" -> <<Stamp(mt, g.steps[s].ins), Stamp(mt, deps), g.steps[s].cmd>>
    [] OTHER -> Sig(g, mt, s, deps)

DirtyB(g, mt, rec, s) ==
  \/ MissingOf(g, mt, s, rec.deps) # {}
  \/ rec.tok = ""
  \/ SigB(g, mt, s, rec.deps) # rec.sig

LoadedB(g, lg, s) ==
  IF RuleBug = "firstout"
    THEN \* attribute a record by its first output only
         LET idx == {i \in DOMAIN lg : lg[i].outs[1] \in Outs(g, s)}
         IN IF idx = {} THEN NoRec ELSE lg[MaxOf(idx)]
    ELSE LoadedFor(g, lg, s)

\* A topological order of the steps of g (ordering edges).
RECURSIVE Topo(_, _, _)
Topo(g, done, acc) ==
  LET rest == StepIds(g) \ done
      rdy == {s \in rest : OrdProd(g, s) \subseteq done}
  IN IF rest = {} \/ rdy = {} THEN acc
     ELSE LET s == CHOOSE x \in rdy : \A y \in rdy : x <= y
          IN Topo(g, done \cup {s}, Append(acc, s))

\* One invocation, folded over the wanted steps in topological order.
\* acc = [file, log, clock, ran, failed, err]; F = the steps whose command fails this time.
RunStep(g, acc, s, F, adopt) ==
  LET mt == [f \in DOMAIN acc.file |-> acc.file[f].mt]
      rec == LoadedB(g, acc.log, s)
      blocked == OrdProd(g, s) \cap acc.failed # {}
      hardErr == MissingSources(g, mt, s) # {}
      dirty == DirtyB(g, mt, rec, s)
  IN IF acc.err \/ blocked THEN [acc EXCEPT !.failed = IF blocked THEN @ \cup {s} ELSE @]
     ELSE IF hardErr THEN [acc EXCEPT !.err = TRUE]
     ELSE IF ~dirty THEN acc
     ELSE IF adopt THEN
          \* -t restat: record the present state, keep the discovered list
          LET deps == rec.deps IN
          IF MissingOf(g, mt, s, deps) # {} THEN acc
          ELSE [acc EXCEPT !.log = Append(@, [outs |-> g.steps[s].outs, deps |-> deps,
                                              sig |-> SigB(g, mt, s, deps), tok |-> "t"])]
     ELSE IF s \in F THEN [acc EXCEPT !.failed = @ \cup {s}, !.ran = @ \cup {s}]
     ELSE LET term == Term(g, acc.file, s)
              ck == acc.clock + 1
              fl2 == [f \in DOMAIN acc.file \cup Outs(g, s) |->
                        IF f \in Outs(g, s) THEN [mt |-> ck, ver |-> term] ELSE acc.file[f]]
              mt2 == [f \in DOMAIN fl2 |-> fl2[f].mt]
              deps == DiscoveredFrom(g, s, ReadsOf(g, s))
              newrec == [outs |-> g.steps[s].outs, deps |-> deps,
                         sig |-> SigB(g, mt2, s, deps), tok |-> "t"]
          IN [acc EXCEPT !.file = fl2, !.clock = ck, !.ran = @ \cup {s},
                         !.log = IF MissingOf(g, mt2, s, deps) = {} THEN Append(@, newrec) ELSE @]

RECURSIVE Fold(_, _, _, _, _)
Fold(g, acc, order, F, adopt) ==
  IF order = <<>> THEN acc
  ELSE Fold(g, RunStep(g, acc, Head(order), F, adopt), Tail(order), F, adopt)

InvocationFrom(g, T, F, adopt, acc0) ==
  LET need == Needed(g, T)
      order == SelectSeq(Topo(g, {}, <<>>), LAMBDA s : s \in need)
  IN Fold(g, acc0, order, F, adopt)

Acc0 == [file |-> file, log |-> log, clock |-> clock, ran |-> {}, failed |-> {}, err |-> FALSE]
Invocation(g, T, F, adopt) == InvocationFrom(g, T, F, adopt, Acc0)

---------------------------------------------------------------------------
Init ==
  /\ file = [f \in Sources |-> [mt |-> 1, ver |-> <<"src", f, 0>>]]
  /\ log = <<>> /\ mver = 1
  /\ reads = [o \in {"o1"} |-> <<"h">>]
  /\ clock = 1 /\ nops = 0
  /\ last = [ok |-> FALSE, ran |-> {}, targets |-> {}, fresh |-> FALSE, adopt |-> FALSE]
  /\ vouched = FALSE /\ plan = 1
  /\ hist = IF Record THEN <<[op |-> "init", g |-> Versions[1], reads |-> [o \in {"o1"} |-> <<"h">>],
                                sources |-> SetSeq(Sources),
                                versions |-> IF Variant = "regen" THEN Versions ELSE <<>>]>> ELSE <<>>

Op == nops < MaxOps /\ nops' = nops + 1
Rec(r) == hist' = IF Record THEN Append(hist, r) ELSE hist
Stale == [last EXCEPT !.fresh = FALSE]

\* The user edits a source (new content, new mtime).
Edit(f) ==
  /\ Op /\ f \in Sources
  /\ clock' = clock + 1
  /\ file' = [file EXCEPT ![f] = [mt |-> clock + 1, ver |-> <<"src", f, clock + 1>>]]
  /\ last' = Stale /\ UNCHANGED <<log, mver, reads, vouched, plan>>
  /\ Rec([op |-> "edit", f |-> f])

\* ... edits a.c so that it includes another set of headers.
EditIncludes(q) ==
  /\ Op /\ clock' = clock + 1
  \* a command can only read what exists (the generated header is produced before it runs)
  /\ \A i \in DOMAIN q : q[i] = "gh" \/ (q[i] \in DOMAIN file /\ file[q[i]].mt # 0)
  /\ file' = [file EXCEPT !["a"] = [mt |-> clock + 1, ver |-> <<"src", "a", clock + 1>>]]
  /\ reads' = [reads EXCEPT !["o1"] = q]
  /\ last' = Stale /\ UNCHANGED <<log, mver, vouched, plan>>
  /\ Rec([op |-> "includes", q |-> q, reads |-> reads'])

\* ... touches or overwrites any existing file (an output gets junk content).
Touch(f) ==
  /\ Op /\ f \in DOMAIN file /\ file[f].mt # 0 /\ f # MF
  /\ clock' = clock + 1
  /\ file' = [file EXCEPT ![f] = [mt |-> clock + 1,
                                   ver |-> IF f \in Sources THEN @.ver ELSE <<"junk", clock + 1>>]]
  /\ last' = Stale /\ UNCHANGED <<log, mver, reads, vouched, plan>>
  /\ Rec([op |-> "touch", f |-> f])

\* ... deletes an output, an intermediate or the header.
Delete(f) ==
  /\ Op /\ f \in DOMAIN file /\ file[f].mt # 0 /\ f \notin {"a", "b", "gh.in", "gen.in", MF}
  /\ file' = [file EXCEPT ![f] = [mt |-> 0, ver |-> <<"missing", f>>]]
  \* a header that is gone is no longer read
  /\ reads' = IF f = "h" THEN [reads EXCEPT !["o1"] = SelectSeq(@, LAMBDA x : x # "h")] ELSE reads
  /\ clock' = clock
  /\ last' = Stale /\ UNCHANGED <<log, mver, vouched, plan>>
  /\ Rec([op |-> "delete", f |-> f, reads |-> reads'])

\* ... replaces the manifest.
SetManifest(v) ==
  /\ Op /\ v \in DOMAIN Versions /\ v # mver /\ Variant # "regen"
  /\ mver' = v
  \* a version that only reorders statements is no change of the project
  /\ last' = IF {Versions[v].steps[i] : i \in DOMAIN Versions[v].steps}
                = {Cur.steps[i] : i \in DOMAIN Cur.steps} THEN last ELSE Stale
  /\ UNCHANGED <<file, log, reads, clock, vouched, plan>>
  /\ Rec([op |-> "manifest", v |-> v, g |-> Versions[v]])

TargetSets(g) == {AllOuts(g)} \cup {{o} : o \in AllOuts(g)}

Invoke(T, F, adopt) ==
  /\ Op /\ Variant # "regen"
  /\ LET g == Cur
         r == Invocation(g, T, F, adopt)
         ok == ~r.err /\ r.failed = {}
     IN /\ file' = r.file /\ log' = r.log /\ clock' = r.clock
        /\ last' = [ok |-> ok, ran |-> {g.steps[s].outs[1] : s \in r.ran}, targets |-> T,
                    fresh |-> TRUE, adopt |-> adopt]
        \* the prediction: which commands run, the verdict, and what is remembered per step
        /\ Rec([op |-> "invoke", targets |-> SetSeq(T), fail |-> SetSeq(F), adopt |-> adopt,
                ran |-> SetSeq({g.steps[s].outs[1] : s \in r.ran}), ok |-> ok, err |-> r.err,
                nok |-> Cardinality(r.ran \ r.failed),
                deps |-> [s \in StepIds(g) |-> LoadedFor(g, r.log, s).deps],
                recorded |-> SetSeq({s \in StepIds(g) : LoadedFor(g, r.log, s).tok # ""})])
  /\ vouched' = (vouched \/ adopt)
  /\ UNCHANGED <<mver, reads, plan>>

\* Variant "regen".  The user edits the generator's input so that it will produce version v.
PlanRegen(v) ==
  /\ Op /\ Variant = "regen" /\ v \in DOMAIN Versions /\ v # plan
  /\ clock' = clock + 1
  /\ file' = [file EXCEPT !["gen.in"] = [mt |-> clock + 1, ver |-> <<"src", "gen.in", clock + 1>>]]
  /\ plan' = v
  /\ last' = Stale /\ UNCHANGED <<log, mver, reads, vouched>>
  /\ Rec([op |-> "plan", v |-> v, g |-> Versions[v]])

\* One invocation when the manifest is generated (run.rs): phase 1 brings the manifest up to
\* date; if a command ran for that, the manifest is read again and everything else (targets,
\* closure, dirtiness) is decided against the new text; if phase 1 fails nothing else runs.
\* Fn: first outputs of the steps whose command fails this time.  T = {}: no names given.
FailIn(g, Fn) == {s \in StepIds(g) : g.steps[s].outs[1] \in Fn}
NamesOf(g, X) == {g.steps[s].outs[1] : s \in X}
InvokeRegen(T, Fn) ==
  /\ Op /\ Variant = "regen"
  /\ LET g == Cur
         r1 == Invocation(g, {MF}, FailIn(g, Fn), FALSE)
         ok1 == ~r1.err /\ r1.failed = {}
         reload == ok1 /\ r1.ran # {}
         g2 == IF reload /\ RuleBug # "noreload" THEN Versions[plan] ELSE g
         unknown == {t \in T : t \notin AllFiles(g2) \cup {MF}}
         T2 == IF T = {} THEN AllFiles(g2) \ {MF} ELSE T \ {MF}
         go2 == ok1 /\ unknown = {}
         r2 == IF go2 THEN InvocationFrom(g2, T2, FailIn(g2, Fn), FALSE,
                                          [r1 EXCEPT !.ran = {}, !.failed = {}])
               ELSE [r1 EXCEPT !.ran = {}, !.failed = {}]
         ok == go2 /\ ~r2.err /\ r2.failed = {}
         gEnd == IF reload THEN Versions[plan] ELSE g
     IN /\ file' = r2.file /\ log' = r2.log /\ clock' = r2.clock
        /\ mver' = IF reload THEN plan ELSE mver
        /\ last' = [ok |-> ok, ran |-> NamesOf(g, r1.ran) \cup NamesOf(g2, r2.ran),
                    targets |-> T2 \cup {MF}, fresh |-> TRUE, adopt |-> FALSE]
        /\ Rec([op |-> "invoke2", targets |-> SetSeq(T), fail |-> SetSeq(Fn),
                ran1 |-> SetSeq(NamesOf(g, r1.ran)), reload |-> reload,
                ran2 |-> SetSeq(NamesOf(g2, r2.ran)), ok |-> ok, unknown |-> SetSeq(unknown),
                nok |-> Cardinality(r1.ran \ r1.failed) + Cardinality(r2.ran \ r2.failed),
                deps |-> [s \in StepIds(gEnd) |-> LoadedFor(gEnd, r2.log, s).deps],
                recorded |-> SetSeq({s \in StepIds(gEnd) : LoadedFor(gEnd, r2.log, s).tok # ""})])
  /\ UNCHANGED <<reads, vouched, plan>>

Next ==
  \/ \E f \in Sources : Edit(f)
  \/ \E q \in {<<>>, <<"h">>, <<"h", "a">>} \cup (IF Variant = "genh" THEN {<<"gh">>, <<"h", "gh">>} ELSE {}) :
        EditIncludes(q)
  \/ \E f \in DOMAIN file : Touch(f) \/ Delete(f)
  \/ \E v \in DOMAIN Versions : SetManifest(v)
  \/ \E T \in TargetSets(Cur) : \E F \in {{}} \cup {{s} : s \in StepIds(Cur)} :
        Invoke(T, F, FALSE)
  \/ \E T \in TargetSets(Cur) : Invoke(T, {}, TRUE)
  \/ \E v \in DOMAIN Versions : PlanRegen(v)
  \/ \E T \in {{}} \cup {{o} : o \in AllOuts(Cur)} :      \* (the manifest itself may be the request)
        \E Fn \in {{}} \cup {{o} : o \in AllOuts(Cur)} : InvokeRegen(T, Fn)

Spec == Init /\ [][Next]_vars

---------------------------------------------------------------------------
\* Generator domain of the history properties: what a command reports it can read.
ReadsSane == \A i \in DOMAIN reads["o1"] :
                reads["o1"][i] = "gh" => (Variant = "genh")

\* C02: a successful (non-restat) invocation leaves what a clean build would produce.
C02 ==
  (last.fresh /\ last.ok /\ ~vouched) =>
     \A s \in Needed(Cur, last.targets) : \A o \in Outs(Cur, s) : VerOf(o) = Clean(Cur, o)

\* C03: right after a successful invocation the same request runs nothing; restat makes the
\* present state count as up to date.  (Domain: every declared file exists.)
WouldRun(T) == Invocation(Cur, T, {}, FALSE).ran     \* (T contains the manifest in variant regen)
AllPresent(T) == \A s \in Needed(Cur, T) :
                    MissingOf(Cur, Mt, s, LoadedFor(Cur, log, s).deps) = {}
C03 == (last.fresh /\ last.ok /\ AllPresent(last.targets)) => WouldRun(last.targets) = {}

\* C03 (minimality): a step runs only if the rule calls it dirty — by construction of
\* RunStep; checked on the code by the trace specification.

\* C09: the remembered list is exactly the last report (first occurrences, minus declared
\* inputs), and a missing discovered file never produces an error (RunStep has no such path).
C09 == \A s \in StepIds(Cur) :
          (Cur.steps[s].outs[1] \in last.ran /\ last.fresh /\ last.ok /\ ~last.adopt /\ LoadedFor(Cur, log, s).tok # "")
             => LoadedFor(Cur, log, s).deps = DiscoveredFrom(Cur, s, ReadsOf(Cur, s))

\* C08: a record is only ever loaded for the step that produces all its outputs.
C08 == \A s \in StepIds(Cur) :
          LET r == LoadedFor(Cur, log, s) IN r.tok # "" => Range(r.outs) \subseteq Outs(Cur, s)

\* One line per complete behaviour, for the replay into the real n2 (configurations with
\* Record = TRUE only): the manifest versions, and the operations with the predicted outcomes.
IsInv(r) == r.op \in {"invoke", "invoke2"}
Emit == (Record /\ nops = MaxOps /\ IsInv(hist[2]) /\ IsInv(hist[Len(hist)])) =>
          PrintT(<<"VEC", ToJson([variant |-> Variant, ops |-> hist])>>)
\* Shape of the replayed behaviours: they begin with a build and end with an invocation.
ReplayShape == (Record /\ (nops = 0 \/ nops = MaxOps - 1)) => IsInv(hist'[Len(hist')])

\* C17: after a successful invocation the manifest on disk is the one its generator produces from
\* the present generator input, and the generator's step is up to date.
GenStepOf(g) == CHOOSE s \in StepIds(g) : MF \in Outs(g, s)
C17 == (Variant = "regen" /\ last.fresh /\ last.ok) =>
          /\ mver = plan
          /\ ~DirtyB(Cur, Mt, LoadedFor(Cur, log, GenStepOf(Cur)), GenStepOf(Cur))

TypeOK == nops \in 0..MaxOps /\ mver \in DOMAIN Versions
=============================================================================
