-------------------------------- MODULE N2Log --------------------------------
(***************************************************************************)
(* The append-only build log under crashes (C07), at the level of frames:  *)
(* the file is a sequence of frames, one per write n2 issues (signature    *)
(* halves, path records, build records), each with its length and the      *)
(* number of bytes that reached the disk.  A process death during write i  *)
(* leaves frames 1..i-1 complete and have[i] in 0..len[i].                 *)
(*                                                                         *)
(* Open models db::open on the next invocation for two recovery designs:   *)
(*   "truncate"  a short tail is cut off (what C07 requires)               *)
(*   "asis"      the pinned reader: 0 or 1 stray bytes at a record         *)
(*               boundary end the log silently and stay in the file, any   *)
(*               other short tail is a load error (finding F1)             *)
(* After a stray tail that is not cut off, whatever is appended later is   *)
(* framed against it: the reader sees garbage from there on ("corrupt").   *)
(***************************************************************************)
EXTENDS Naturals, Sequences, FiniteSets, TLC

CONSTANTS MaxRecs, Recovery

VARIABLES
  frames,   \* sequence of [kind, id, len, have]  kind \in {"sig", "rec"}
  mode,     \* "closed" | "open" | "unusable" (load error: every later invocation fails)
  durable,  \* ids of build records n2 believes are in the log (acknowledged appends)
  nrec, crashes

vars == <<frames, mode, durable, nrec, crashes>>

Lens == {3, 4}     \* two record sizes are enough to tell boundaries from interiors

Complete(f) == f.have = f.len
\* the longest prefix of complete frames
RECURSIVE GoodPrefix(_)
GoodPrefix(fs) == IF fs = <<>> \/ ~Complete(Head(fs)) THEN <<>> ELSE <<Head(fs)>> \o GoodPrefix(Tail(fs))

\* What a reader gets: the records of the good prefix; corrupt if something follows a stray tail.
Readable(fs) ==
  LET good == GoodPrefix(fs)
      rest == SubSeq(fs, Len(good) + 1, Len(fs))
  IN [recs |-> {good[i].id : i \in {j \in DOMAIN good : good[j].kind = "rec"}},
      corrupt |-> rest # <<>> /\ (rest[1].have > 0) /\ Len(rest) > 1,
      torn |-> rest # <<>>,
      tail |-> IF rest = <<>> THEN 0 ELSE rest[1].have,
      sigok |-> Len(good) >= 2]

Init == /\ frames = <<>> /\ mode = "closed" /\ durable = {} /\ nrec = 0 /\ crashes = 0

\* db::open: create (two signature writes) or read + position at end for appending.
Open ==
  /\ mode = "closed"
  /\ LET r == Readable(frames) IN
     IF frames = <<>> THEN
          /\ frames' = <<[kind |-> "sig", id |-> 0, len |-> 4, have |-> 4],
                         [kind |-> "sig", id |-> 0, len |-> 4, have |-> 4]>>
          /\ mode' = "open"
     ELSE IF Recovery = "truncate" THEN
          \* cut the short tail; a short signature means the log was never created
          /\ frames' = IF r.sigok THEN GoodPrefix(frames)
                       ELSE <<[kind |-> "sig", id |-> 0, len |-> 4, have |-> 4],
                              [kind |-> "sig", id |-> 0, len |-> 4, have |-> 4]>>
          /\ mode' = "open"
     ELSE \* "asis"
          /\ frames' = frames
          /\ mode' = IF ~r.sigok THEN "unusable"
                     ELSE IF r.torn /\ r.tail >= 2 THEN "unusable"
                     ELSE IF r.corrupt THEN "unusable"
                     ELSE "open"
  /\ UNCHANGED <<durable, nrec, crashes>>

\* One complete append (path or build record).
AppendRec(l) ==
  /\ mode = "open" /\ nrec < MaxRecs
  /\ nrec' = nrec + 1
  /\ frames' = Append(frames, [kind |-> "rec", id |-> nrec + 1, len |-> l, have |-> l])
  /\ durable' = durable \cup {nrec + 1}
  /\ UNCHANGED <<mode, crashes>>

\* The process dies during an append: k of l bytes reach the file.
CrashInAppend(l, k) ==
  /\ mode = "open" /\ nrec < MaxRecs /\ crashes < 2
  /\ nrec' = nrec + 1 /\ crashes' = crashes + 1
  /\ frames' = IF k = 0 THEN frames
               ELSE Append(frames, [kind |-> "rec", id |-> nrec + 1, len |-> l, have |-> k])
  /\ durable' = IF k = l THEN durable \cup {nrec + 1} ELSE durable
  /\ mode' = "closed"

\* ... during creation: 0..8 bytes of the signature.
CrashInCreate(k) ==
  /\ mode = "closed" /\ frames = <<>> /\ crashes < 2
  /\ crashes' = crashes + 1
  /\ frames' = IF k = 0 THEN <<>>
               ELSE IF k <= 4 THEN <<[kind |-> "sig", id |-> 0, len |-> 4, have |-> k]>>
               ELSE <<[kind |-> "sig", id |-> 0, len |-> 4, have |-> 4],
                      [kind |-> "sig", id |-> 0, len |-> 4, have |-> k - 4]>>
  /\ UNCHANGED <<mode, durable, nrec>>

\* Normal end of an invocation.
Close == mode = "open" /\ mode' = "closed" /\ UNCHANGED <<frames, durable, nrec, crashes>>

Next == \/ Open \/ Close
        \/ \E l \in Lens : AppendRec(l) \/ \E k \in 0..l : CrashInAppend(l, k)
        \/ \E k \in 0..8 : CrashInCreate(k)

Spec == Init /\ [][Next]_vars

\* C07: the next invocation always starts; every intact record stays loadable; the log
\* never becomes garbage.
AlwaysLoadable == mode # "unusable"
NeverCorrupt == ~Readable(frames).corrupt
IntactSurvive == \A id \in durable : id \in Readable(frames).recs
NothingInvented == Readable(frames).recs \subseteq 1..nrec
=============================================================================
