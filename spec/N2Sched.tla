------------------------------- MODULE N2Sched -------------------------------
(***************************************************************************)
(* The scheduler's bookkeeping as pure state transformers: what            *)
(* BuildStates::set does to the state map and its side views (counts per   *)
(* state of the non-phony steps, total_pending, the ready queue), which     *)
(* steps Work::ready_dependents promotes, and when a pool has room.         *)
(*                                                                         *)
(* N2Work (model checking) defines its actions with these operators and    *)
(* TraceObs (trace validation) applies the very same operators to the      *)
(* state mirrored from the real code's `set` events and compares the       *)
(* result with the counters the code logged.  That is the binding of the   *)
(* model-checked scheduler to the implementation: the invariants TLC       *)
(* proves for N2Work (Bookkeeping, C19, C04) speak about these operators.  *)
(***************************************************************************)
EXTENDS N2Graph, SchedCore

SchedStates  == {"Unknown", "Want", "Ready", "Queued", "Running", "Done", "Failed"}
SchedCounted == SchedStates \ {"Unknown"}
SchedOpen    == {"Want", "Ready", "Queued", "Running"}

\* Transitions BuildStates::set is ever asked to make (work.rs): want_build, recheck_ready,
\* check of a Ready step (clean / adopt / enqueue), pop_queued, completion.
SchedLegal == { <<"Unknown", "Want">>, <<"Unknown", "Ready">>, <<"Want", "Ready">>,
                <<"Ready", "Done">>, <<"Ready", "Queued">>, <<"Queued", "Running">>,
                <<"Running", "Done">>, <<"Running", "Failed">> }
\* Deliberate deviation, named: want_build sets a step's state only after visiting its ordering
\* inputs; when one of those inputs' producers has a validation edge back to the step, the step
\* is entered a second time while still Unknown and both visits call set(Want).  The second
\* call changes nothing (SchedSet with new = old is the identity on st, counts and pending), so
\* N2Work has no action for it (a stuttering step); the trace specification accepts it as such.
SchedRewant == <<"Want", "Want">>

SchedInit(g) ==
  [st |-> [s \in StepIds(g) |-> "Unknown"], ready |-> {}, pending |-> 0,
   counts |-> [x \in SchedCounted |-> 0]]

\* BuildStates::set for a set of simultaneous changes (new: step -> new state) applied to
\* iv = [st, ready, pending, counts].
\* (the arithmetic itself is SchedCore!CoreSet, shared with the Apalache check)
PhonySteps(g) == {s \in StepIds(g) : IsPhony(g, s)}
SchedSet(g, iv, new) == CoreSet(PhonySteps(g), iv, new)

\* want_build: a freshly wanted step is Ready iff every producer of its ordering inputs is Done.
SchedReadyNow(g, st, s) == \A p \in OrdProd(g, s) : st[p] = "Done"

\* Work::ready_dependents: s becomes Done; Want steps that list one of its outputs among any
\* of their inputs become Ready when all producers of their ordering inputs are Done.
SchedPromoted(g, st, s) ==
  {d \in StepIds(g) : /\ st[d] = "Want"
                      /\ Outs(g, s) \cap AllIns(g, d) # {}
                      /\ \A p \in OrdProd(g, d) : p = s \/ st[p] = "Done"}

\* pop_queued only yields from pools with depth 0 or a free slot.
SchedPoolHasRoom(g, poolRun, q) == PoolDepth(g, q) = 0 \/ poolRun[q] < PoolDepth(g, q)

\* The invariant the side views must satisfy with respect to the state map.
SchedConsistent(g, iv) == CoreConsistent(StepIds(g), PhonySteps(g), iv)
=============================================================================
