------------------------------- MODULE N2Store -------------------------------
(***************************************************************************)
(* What persists between invocations: the file tree (name -> mtime, 0 =    *)
(* missing) and the build log (a sequence of records), and the rule that   *)
(* decides from them whether a step must run.                              *)
(*                                                                         *)
(* A log record is [outs, deps, sig, tok]: the outputs and discovered      *)
(* dependencies written, the signature the rule compares (a structural     *)
(* value here; n2 stores a 64-bit hash of the same data) and the hash      *)
(* token n2 actually wrote (opaque, only ever compared for equality with   *)
(* what n2 later loads).                                                   *)
(***************************************************************************)
EXTENDS N2Graph

MT(file, f) == IF f \in DOMAIN file THEN file[f] ELSE 0

Stamp(file, q) == [i \in DOMAIN q |-> <<q[i], MT(file, q[i])>>]

\* The data whose change makes a step dirty: names and mtimes of dirtying inputs and of
\* discovered dependencies, the command line, the response file, names and mtimes of outputs.
Sig(g, file, s, deps) ==
  << Stamp(file, g.steps[s].ins),
     Stamp(file, deps),
     g.steps[s].cmd,
     IF g.steps[s].hasrsp THEN <<g.steps[s].rsp, g.steps[s].rspc>> ELSE <<>>,
     Stamp(file, g.steps[s].outs) >>

\* What `-d explain` lists as hashed (hash.rs build_manifest through ExplainHash): the same data,
\* except that of the response file only the path is shown in clear (its content as a hash).
SigShown(g, file, s, deps) ==
  << Stamp(file, g.steps[s].ins), Stamp(file, deps), g.steps[s].cmd,
     IF g.steps[s].hasrsp THEN <<g.steps[s].rsp>> ELSE <<>>,
     Stamp(file, g.steps[s].outs) >>

MissingOf(g, file, s, deps) ==
  {f \in DirtyIns(g, s) \cup Range(deps) \cup Outs(g, s) : MT(file, f) = 0}

NoRec == [outs |-> <<>>, deps |-> <<>>, sig |-> <<>>, tok |-> ""]

\* A record applies to the current graph iff all its outputs are outputs of one current step.
RecSteps(g, r) == {s \in StepIds(g) : \A i \in DOMAIN r.outs : r.outs[i] \in Outs(g, s)}
Applicable(g, r) == r.outs # <<>> /\ RecSteps(g, r) # {}
StepOfRec(g, r) == CHOOSE s \in RecSteps(g, r) : TRUE

MaxOf(S) == CHOOSE x \in S : \A y \in S : y <= x

\* The record loaded for step s: the latest applicable one.
LoadedFor(g, log, s) ==
  LET idx == {i \in DOMAIN log : Applicable(g, log[i]) /\ s \in RecSteps(g, log[i])}
  IN  IF idx = {} THEN NoRec ELSE log[MaxOf(idx)]

Loaded(g, log) == [s \in StepIds(g) |-> LoadedFor(g, log, s)]

\* The manifest rule.  rec is the step's current record (NoRec if none).
Dirty(g, file, rec, s) ==
  /\ ~IsPhony(g, s)
  /\ \/ MissingOf(g, file, s, rec.deps) # {}
     \/ rec.tok = ""
     \/ Sig(g, file, s, rec.deps) # rec.sig

\* A dirtying input that is missing and that no step produces: n2 stops with an error.
MissingSources(g, file, s) ==
  {f \in DirtyIns(g, s) : MT(file, f) = 0 /\ ~HasProducer(g, f)}

\* What is remembered from a successful run that reported `reported` (canonical names):
\* first occurrences, minus the declared dirtying inputs.
DiscoveredFrom(g, s, reported) == SeqWithout(Dedup(reported), DirtyIns(g, s))
=============================================================================
