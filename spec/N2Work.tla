------------------------------- MODULE N2Work -------------------------------
(***************************************************************************)
(* The scheduler of one invocation (work.rs, Work::run and BuildStates),   *)
(* one action per critical section of the loop, with the same side views   *)
(* the code keeps (ready queue, per-pool queues and running counters,      *)
(* pending count, user-facing state counts).  Scheduling POLICY is left    *)
(* open: any enabled action may happen at any time, so every behaviour of  *)
(* the code's loop (start as much as possible, check everything ready,     *)
(* only then wait) is a behaviour of this specification.                   *)
(*                                                                         *)
(* Dirtiness is an oracle here (a Boolean per step, fixed per behaviour,   *)
(* consulted when the step is checked); N2Hist composes the scheduler's    *)
(* outcome with the real rule of N2Store.                                  *)
(*                                                                         *)
(* The graph and all parameters are chosen in Init (the bounded families   *)
(* of DESIGN 3.2) and never change during a behaviour.                     *)
(***************************************************************************)
EXTENDS N2Sched, TLC

CONSTANTS
  N,        \* number of steps
  Family,   \* which bounded family Init ranges over
  Quick     \* TRUE: the reduced parameter sets of the quick tier

VARIABLES
  g,        \* the graph
  par,      \* [dirty, outcome, j, k, targets, pre, adopt]
  st,       \* step -> state
  ready,    \* set of steps in the ready queue
  queued,   \* pool name -> set of queued steps
  poolRun,  \* pool name -> number of running steps (the code's counter)
  nrun,     \* Runner.running
  pending,  \* total_pending
  counts,   \* user-facing counts, state -> Nat (non-phony steps only)
  failsLeft,\* Options.failures_left (0 = unlimited, as -k absent)
  tasksFailed, tasksRun,
  pc,       \* "want1" | "run1" | "want2" | "run2" | "ok" | "failed" | "error" | "BUG"
  obs       \* observation history: [started, finOK, finFail, intr, run] (sets of steps)

vars == <<g, par, st, ready, queued, poolRun, nrun, pending, counts, failsLeft,
          tasksFailed, tasksRun, pc, obs>>

Steps == 1..N
States == SchedStates
Counted == SchedCounted
Terminal == {"ok", "failed", "error", "BUG"}

Name(prefix, i) == prefix \o ToString(i)

---------------------------------------------------------------------------
\* Graph families.

\* ek: function from ordered pairs <<i, j>> (step j uses output of step i) to an edge kind.
MkStep(j, ek, phony, pool, two) ==
  LET from(kind) == {i \in Steps : <<i, j>> \in DOMAIN ek /\ ek[<<i, j>>] = kind}
      seqOf(S) == [k \in 1..Cardinality(S) |->
                     Name("o", CHOOSE i \in S : Cardinality({x \in S : x < i}) = k - 1)]
  IN [outs |-> IF two THEN <<Name("o", j), Name("x", j)>> ELSE <<Name("o", j)>>,
      nxo |-> 1,
      ins |-> <<Name("s", j)>> \o seqOf(from("ex")), nxi |-> 1 + Cardinality(from("ex")),
      oo |-> seqOf(from("oo")), val |-> seqOf(from("val")),
      phony |-> phony, pool |-> pool,
      cmd |-> IF phony THEN "" ELSE Name("cmd", j), desc |-> "", depfile |-> "",
      msvc |-> FALSE, rsp |-> "", rspc |-> "", hasrsp |-> FALSE]

MkGraph(ek, phonies, poolOf, twos, depth) ==
  [steps |-> [j \in Steps |-> MkStep(j, ek, j \in phonies, poolOf[j], j \in twos)],
   pools |-> <<<<"p", depth>>>>,
   defaults |-> <<>>]

Forward == {<<i, j>> \in Steps \X Steps : i < j}
AllPairs == {<<i, j>> \in Steps \X Steps : i # j}

NoPool == [j \in Steps |-> ""]
AllOk == [s \in Steps |-> "ok"]
OutFiles == {Name("o", i) : i \in Steps}

\* Family "order": every mix of edge kinds, phony subsets, dirty subsets, target subsets.
\* Family "fail":  failing / interrupted commands, -k budgets.
\* Family "pool":  pools and -j.
\* Family "cycle": arbitrary (also backward) edges, cycles through validation edges.
\* Family "pre":   steps already settled by the manifest-regeneration phase.
InitParams ==
  CASE Family = "order" ->
         {[g |-> MkGraph(ek, ph, NoPool, tw, 1), dirty |-> d, outcome |-> AllOk, j |-> j, k |-> 0,
           targets |-> t, pre |-> {}, adopt |-> FALSE] :
            ek \in [Forward -> {"none", "ex", "oo", "val"}], ph \in SUBSET Steps,
            tw \in (IF Quick THEN {{}} ELSE {{}, {1}}), d \in SUBSET Steps,
            j \in (IF Quick THEN {2} ELSE {1, 2}),
            t \in (SUBSET OutFiles) \ {{}}}
    [] Family = "fail" ->
         {[g |-> MkGraph(ek, {}, NoPool, {}, 1), dirty |-> Steps, outcome |-> o, j |-> j, k |-> k,
           targets |-> OutFiles, pre |-> {}, adopt |-> FALSE] :
            ek \in [Forward -> {"none", "ex", "val"}],
            o \in [Steps -> {"ok", "fail", "intr"}], j \in {1, 2}, k \in {0, 1, 2}}
    [] Family = "pool" ->
         {[g |-> MkGraph(ek, {}, pl, {}, dp), dirty |-> Steps, outcome |-> o, j |-> j, k |-> 0,
           targets |-> OutFiles, pre |-> {}, adopt |-> FALSE] :
            ek \in [Forward -> {"none", "ex"}], pl \in [Steps -> {"", "p", "console", "q"}],
            dp \in (IF Quick THEN {1, 2} ELSE {0, 1, 2}), o \in [Steps -> {"ok", "fail"}],
            j \in (IF Quick THEN {1, 2} ELSE {1, 2, 3})}
    [] Family = "cycle" ->
         {[g |-> MkGraph(ek, {}, NoPool, {}, 1), dirty |-> Steps, outcome |-> AllOk, j |-> 2, k |-> 0,
           targets |-> t, pre |-> {}, adopt |-> FALSE] :
            ek \in [AllPairs -> {"none", "ex", "val"}], t \in {{Name("o", 1)}, OutFiles}}
    \* Family "diamond" (N = 4, thorough tier): shapes three steps cannot have - two paths from one
    \* producer to one consumer, a consumer of two independent producers, a failure on one path.
    [] Family = "diamond" ->
         {[g |-> MkGraph([e \in Forward |-> IF e \in DOMAIN ek THEN ek[e] ELSE "none"], ph, pl, {}, 1),
           dirty |-> d, outcome |-> o, j |-> j, k |-> 0,
           targets |-> t, pre |-> {}, adopt |-> FALSE] :
            ek \in [{<<1, 2>>, <<1, 3>>, <<2, 4>>, <<3, 4>>} -> {"none", "ex", "oo", "val"}],
            ph \in {{}, {2}, {4}, {2, 3}}, pl \in {NoPool, [s \in Steps |-> IF s \in {2, 3} THEN "p" ELSE ""]},
            d \in {Steps, {1}, {2}, {4}, {1, 3}, {2, 3}}, o \in {AllOk, [s \in Steps |-> IF s = 2 THEN "fail" ELSE "ok"]},
            j \in {2, 3}, t \in {OutFiles, {Name("o", 4)}}}
    [] Family = "pre" ->
         {[g |-> MkGraph(ek, ph, NoPool, {}, 1), dirty |-> d, outcome |-> o, j |-> 2, k |-> 0,
           targets |-> t, pre |-> p, adopt |-> a] :
            ek \in [Forward -> {"none", "ex", "oo", "val"}], ph \in (IF Quick THEN {{}} ELSE SUBSET {N}), d \in SUBSET Steps,
            o \in [Steps -> {"ok", "fail"}],
            t \in {OutFiles, {Name("o", N)}}, p \in {{Name("o", 1)}, {Name("o", 2)}},
            a \in (IF Quick THEN {FALSE} ELSE BOOLEAN)}

---------------------------------------------------------------------------
Pools == {"", "console", "p", "q"}

Phase1Steps(gr, p) == Needed(gr, p.pre)

Init ==
  \E p \in InitParams :
    \* phase 1 only runs nothing (otherwise the manifest is reloaded and the invocation
    \* starts over with a fresh scheduler): its steps are clean.
    /\ \A s \in Phase1Steps(p.g, p) : s \notin p.dirty \/ IsPhony(p.g, s)
    /\ g = p.g
    /\ par = [dirty |-> p.dirty, outcome |-> p.outcome, j |-> p.j, k |-> p.k,
              targets |-> p.targets, pre |-> p.pre, adopt |-> p.adopt]
    /\ st = [s \in Steps |-> "Unknown"]
    /\ ready = {}
    /\ queued = [q \in Pools |-> {}]
    /\ poolRun = [q \in Pools |-> 0]
    /\ nrun = 0 /\ pending = 0
    /\ counts = [x \in Counted |-> 0]
    /\ failsLeft = p.k
    /\ tasksFailed = 0 /\ tasksRun = 0
    /\ pc = IF p.pre = {} THEN "want2" ELSE "want1"
    /\ obs = [started |-> {}, finOK |-> {}, finFail |-> {}, intr |-> {}, run |-> {}]

---------------------------------------------------------------------------
\* BuildStates::set for a set of simultaneous changes (new: step -> new state): the shared
\* transformer of N2Sched applied to this module's variables.
IV == [st |-> st, ready |-> ready, pending |-> pending, counts |-> counts]
SetStates(new) ==
  LET r == SchedSet(g, IV, new)
  IN /\ st' = r.st /\ counts' = r.counts /\ pending' = r.pending /\ ready' = r.ready

\* Work::ready_dependents.
Promoted(s) == SchedPromoted(g, st, s)

DoneAndPromote(s) ==
  SetStates([x \in {s} \cup Promoted(s) |-> IF x = s THEN "Done" ELSE "Ready"])

Running == pc \in {"run1", "run2"}

\* BuildStates::want_file for every requested file of the phase.
Want ==
  /\ pc \in {"want1", "want2"}
  /\ LET T == IF pc = "want1" THEN par.pre ELSE par.targets
         need == Needed(g, T)
         fresh == {s \in need : st[s] = "Unknown"}
     IN IF OrdCycleIn(g, need)
          THEN /\ pc' = "error"
               /\ UNCHANGED <<st, ready, counts, pending>>
          ELSE /\ SetStates([s \in fresh |->
                     IF SchedReadyNow(g, st, s) THEN "Ready" ELSE "Want"])
               /\ pc' = IF pc = "want1" THEN "run1" ELSE "run2"
  /\ UNCHANGED <<g, par, queued, poolRun, nrun, failsLeft, tasksFailed, tasksRun, obs>>

IsDirty(s) == ~IsPhony(g, s) /\ s \in par.dirty

\* check_build_dirty says clean: straight to Done.
CheckClean(s) ==
  /\ Running /\ s \in ready /\ ~IsDirty(s)
  /\ DoneAndPromote(s)
  /\ UNCHANGED <<g, par, queued, poolRun, nrun, failsLeft, tasksFailed, tasksRun, pc, obs>>

\* dirty, adopt mode (-t restat): record as is, Done.
CheckAdopt(s) ==
  /\ Running /\ s \in ready /\ IsDirty(s) /\ par.adopt
  /\ DoneAndPromote(s)
  /\ UNCHANGED <<g, par, queued, poolRun, nrun, failsLeft, tasksFailed, tasksRun, pc, obs>>

\* dirty: BuildStates::enqueue into its pool.
CheckEnqueue(s) ==
  /\ Running /\ s \in ready /\ IsDirty(s) /\ ~par.adopt
  /\ PoolDepth(g, PoolOf(g, s)) >= 0
  /\ SetStates([x \in {s} |-> "Queued"])
  /\ queued' = [queued EXCEPT ![PoolOf(g, s)] = @ \cup {s}]
  /\ UNCHANGED <<g, par, poolRun, nrun, failsLeft, tasksFailed, tasksRun, pc, obs>>

\* dirty, pool not declared: the invocation ends with an error.
ErrUnknownPool(s) ==
  /\ Running /\ s \in ready /\ IsDirty(s) /\ ~par.adopt
  /\ PoolDepth(g, PoolOf(g, s)) < 0
  /\ pc' = "error"
  /\ UNCHANGED <<g, par, st, ready, queued, poolRun, nrun, pending, counts, failsLeft,
                 tasksFailed, tasksRun, obs>>

PoolHasRoom(q) == SchedPoolHasRoom(g, poolRun, q)

\* pop_queued + Runner::start.
StartQueued(s) ==
  /\ Running /\ nrun < par.j
  /\ s \in queued[PoolOf(g, s)] /\ PoolHasRoom(PoolOf(g, s))
  /\ SetStates([x \in {s} |-> "Running"])
  /\ queued' = [queued EXCEPT ![PoolOf(g, s)] = @ \ {s}]
  /\ poolRun' = [poolRun EXCEPT ![PoolOf(g, s)] = @ + 1]
  /\ nrun' = nrun + 1
  /\ obs' = [obs EXCEPT !.started = @ \cup {s}, !.run = @ \cup {s}]
  /\ UNCHANGED <<g, par, failsLeft, tasksFailed, tasksRun, pc>>

\* Runner::wait returns a successful task.
FinishOK(s) ==
  /\ Running /\ s \in obs.run /\ par.outcome[s] = "ok"
  /\ DoneAndPromote(s)
  /\ poolRun' = [poolRun EXCEPT ![PoolOf(g, s)] = @ - 1]
  /\ nrun' = nrun - 1
  /\ tasksRun' = tasksRun + 1
  /\ obs' = [obs EXCEPT !.run = @ \ {s}, !.finOK = @ \cup {s}]
  /\ UNCHANGED <<g, par, queued, failsLeft, tasksFailed, pc>>

\* ... a failed task: budget, then Failed.
FinishFail(s) ==
  /\ Running /\ s \in obs.run /\ par.outcome[s] = "fail"
  /\ nrun' = nrun - 1
  /\ obs' = [obs EXCEPT !.run = @ \ {s}, !.finFail = @ \cup {s}]
  /\ IF failsLeft = 1
       THEN /\ pc' = "failed" /\ failsLeft' = 0
            /\ UNCHANGED <<st, ready, counts, pending, poolRun, tasksFailed>>
       ELSE /\ failsLeft' = IF failsLeft = 0 THEN 0 ELSE failsLeft - 1
            /\ tasksFailed' = tasksFailed + 1
            /\ SetStates([x \in {s} |-> "Failed"])
            /\ poolRun' = [poolRun EXCEPT ![PoolOf(g, s)] = @ - 1]
            /\ pc' = pc
  /\ UNCHANGED <<g, par, queued, tasksRun>>

\* ... an interrupted task: stop at once.
FinishIntr(s) ==
  /\ Running /\ s \in obs.run /\ par.outcome[s] = "intr"
  /\ nrun' = nrun - 1
  /\ obs' = [obs EXCEPT !.run = @ \ {s}, !.intr = @ \cup {s}]
  /\ pc' = "failed"
  /\ UNCHANGED <<g, par, st, ready, queued, poolRun, pending, counts, failsLeft,
                 tasksFailed, tasksRun>>

CanStart == \E s \in Steps : nrun < par.j /\ s \in queued[PoolOf(g, s)] /\ PoolHasRoom(PoolOf(g, s))

\* while self.build_states.unfinished() ends.
ExitDone ==
  /\ Running /\ pending = 0
  /\ pc' = IF tasksFailed > 0 THEN "failed" ELSE IF pc = "run1" THEN "want2" ELSE "ok"
  /\ UNCHANGED <<g, par, st, ready, queued, poolRun, nrun, pending, counts, failsLeft,
                 tasksFailed, tasksRun, obs>>

\* nothing startable, nothing ready, nothing running.
ExitNoProgress ==
  /\ Running /\ pending > 0 /\ ~CanStart /\ ready = {} /\ nrun = 0
  /\ pc' = IF tasksFailed > 0 THEN "failed" ELSE "BUG"
  /\ UNCHANGED <<g, par, st, ready, queued, poolRun, nrun, pending, counts, failsLeft,
                 tasksFailed, tasksRun, obs>>

Next ==
  \/ Want \/ ExitDone \/ ExitNoProgress
  \/ \E s \in Steps : \/ CheckClean(s) \/ CheckAdopt(s) \/ CheckEnqueue(s) \/ ErrUnknownPool(s)
                      \/ StartQueued(s) \/ FinishOK(s) \/ FinishFail(s) \/ FinishIntr(s)

Spec == Init /\ [][Next]_vars /\ WF_vars(Next)

---------------------------------------------------------------------------
\* The monitors (N2Props, scheduler part), over observations wherever possible.

WantedAll == Needed(g, par.pre) \cup Needed(g, par.targets)
Budget == par.k
NonPhonyIn(S) == {s \in S : ~IsPhony(g, s)}

\* C01: a started step has every transitive ordering producer finished OK or never started.
C01 == \A s \in obs.started :
         \A p \in TransProducers(g, s) : p \in obs.finOK \/ p \notin obs.started
\* ... and (stronger, internal) judged Done.
C01Internal == \A s \in Steps : st[s] \in {"Queued", "Running"} =>
                  \A p \in TransProducers(g, s) : st[p] = "Done"
\* no second start: the only way into Running is from Queued, and Running is left for good.
C01NoRestart == [][\A s \in Steps : (st[s] # "Running" /\ st'[s] = "Running") => s \notin obs.started]_vars

\* C04
C04 == /\ Cardinality(obs.run) <= par.j
       /\ \A q \in Pools : PoolDepth(g, q) > 0 =>
             Cardinality({s \in obs.run : PoolOf(g, s) = q}) <= PoolDepth(g, q)
       /\ \A s \in obs.started : PoolDepth(g, PoolOf(g, s)) >= 0
C04Error == (\E s \in NonPhonyIn(WantedAll) : PoolDepth(g, PoolOf(g, s)) < 0 /\ IsDirty(s) /\ ~par.adopt)
              => pc # "ok"

\* C05
C05Contained == \A s \in obs.started : TransProducers(g, s) \cap (obs.finFail \cup obs.intr) = {}
C05Budget == [][\A s \in Steps : (s \in obs'.started \ obs.started) =>
                   /\ (Budget > 0 => Cardinality(obs.finFail) < Budget)
                   /\ obs.intr = {}]_vars
C05Exit == pc = "ok" => /\ obs.finFail = {} /\ obs.intr = {}
                        /\ \A s \in WantedAll : st[s] = "Done"
Downstream(s) == s \in obs.finFail \/ TransProducers(g, s) \cap obs.finFail # {}
C05KeepGoing ==
  (pc = "failed" /\ obs.intr = {} /\ (Budget = 0 \/ Cardinality(obs.finFail) < Budget))
     => \A s \in WantedAll : Downstream(s) \/ st[s] = "Done"
C05FailExit == (obs.finFail # {} \/ obs.intr # {}) => pc # "ok"

\* C06
C06NoBug == pc # "BUG"
C06Error == pc = "error" =>
              \/ OrdCycleIn(g, Needed(g, par.pre)) \/ OrdCycleIn(g, Needed(g, par.targets))
              \/ \E s \in WantedAll : PoolDepth(g, PoolOf(g, s)) < 0
C06Cycle == (OrdCycleIn(g, Needed(g, par.targets)) /\ pc \in Terminal) =>
              /\ pc \in {"error", "failed"}
              /\ \A s \in obs.started : ~OnOrdCycle(g, s)
C06Terminates == <>(pc \in Terminal)
\* a step never waits for its validation targets: whenever only validation targets of a
\* non-started step are running or queued, that step is not held back by them.
C06NoValWait == \A s \in Steps :
   (st[s] = "Want") => \E p \in OrdProd(g, s) : st[p] # "Done"

\* C18
C18 == /\ obs.started \subseteq WantedAll
       /\ pc = "ok" => {s \in Steps : st[s] # "Unknown"} = WantedAll

\* C19 (and the bookkeeping the code's side views must satisfy)
C19 == /\ \A x \in Counted : counts[x] = Cardinality({s \in Steps : ~IsPhony(g, s) /\ st[s] = x})
       /\ (pc \in {"run1", "run2"} => counts["Running"] = Cardinality(obs.run))
       /\ (pc \in {"run1", "run2"} => counts["Failed"] = Cardinality(obs.finFail))
       /\ tasksRun = Cardinality(obs.finOK)
Bookkeeping ==
  /\ SchedConsistent(g, IV)
  /\ pending = Cardinality({s \in Steps : st[s] \in {"Want", "Ready", "Queued", "Running"}})
  /\ ready = {s \in Steps : st[s] = "Ready"}
  /\ \A q \in Pools : queued[q] = {s \in Steps : st[s] = "Queued" /\ PoolOf(g, s) = q}
  /\ (pc \in {"run1", "run2"} => \A q \in Pools :
         poolRun[q] = Cardinality({s \in obs.run : PoolOf(g, s) = q}))
  /\ (pc \in {"run1", "run2"} => nrun = Cardinality(obs.run))
C19Monotone == [][counts'["Done"] + counts'["Failed"] >= counts["Done"] + counts["Failed"]]_vars

\* every change of a step's state is one of the transitions BuildStates::set is asked to make
LegalTransitions == [][\A s \in Steps : st'[s] # st[s] => <<st[s], st'[s]>> \in SchedLegal]_vars

TypeOK == /\ st \in [Steps -> States] /\ pc \in {"want1", "run1", "want2", "run2"} \cup Terminal
=============================================================================
