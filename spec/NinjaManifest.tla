--------------------------- MODULE NinjaManifest ---------------------------
(***************************************************************************)
(* The manifest language n2 supports, as a function from abstract          *)
(* manifests to declared graphs (C10, C11, C14).                           *)
(*                                                                         *)
(* An abstract manifest is a sequence of files, each a sequence of         *)
(* statements (file 1 is the top-level manifest).  Strings with variable   *)
(* references are sequences of parts:  <<"lit", s>>, <<"var", v>>, and the  *)
(* characters that need an escape in a path or value: <<"sp">> (space),    *)
(* <<"colon">>, <<"dollar">>.                                              *)
(*                                                                         *)
(*   Load(files)      the declared graph (steps in statement order with    *)
(*                    paths in their roles and evaluated attributes,       *)
(*                    defaults, pools) or an error                         *)
(*   Text(files, c)   the concrete text of each file under a spelling      *)
(*                    choice c (spacing, line continuations, $v vs ${v},   *)
(*                    indentation, final newline)                          *)
(*                                                                         *)
(* C10: Load does not look at c.  C11: Load implements Ninja's scoping.    *)
(* C14: Load rejects a second producer of a file.                          *)
(***************************************************************************)
EXTENDS Naturals, Sequences, FiniteSets, TLC, Json

CONSTANTS Family, Quick

VARIABLE x

Range(q) == {q[i] : i \in DOMAIN q}
Lit(s) == <<"lit", s>>
Var(v) == <<"var", v>>
SP == <<"sp">>
COLON == <<"colon">>
DOLLAR == <<"dollar">>
P(s) == <<Lit(s)>>                      \* a plain string as parts

---------------------------------------------------------------------------
\* Evaluation (eval.rs): the first environment that binds the variable wins; its value is
\* expanded in the environments AFTER it; unbound = empty.  An environment is
\* [evald |-> BOOLEAN, m |-> function]: evaluated strings (file scope) or parts.
RECURSIVE EvalParts(_, _), Lookup(_, _)
EvalPart(p, envs) ==
  CASE p[1] = "lit" -> p[2]
    [] p[1] = "sp" -> " "
    [] p[1] = "colon" -> ":"
    [] p[1] = "dollar" -> "$"
    [] p[1] = "var" -> Lookup(p[2], envs)
EvalParts(ps, envs) ==
  IF ps = <<>> THEN "" ELSE EvalPart(Head(ps), envs) \o EvalParts(Tail(ps), envs)
Lookup(v, envs) ==
  IF envs = <<>> THEN ""
  ELSE LET e == Head(envs) IN
       IF v \in DOMAIN e.m
         THEN IF e.evald THEN e.m[v] ELSE EvalParts(e.m[v], Tail(envs))
         ELSE Lookup(v, Tail(envs))

Env(m, evald) == [evald |-> evald, m |-> m]
\* bindings given as a sequence of <<name, parts>>: later ones replace earlier ones
RECURSIVE BindMap(_)
BindMap(bs) == IF bs = <<>> THEN <<>>
               ELSE LET rest == BindMap(SubSeq(bs, 1, Len(bs) - 1))
                        b == bs[Len(bs)]
                    IN (b[1] :> b[2]) @@ rest

RECURSIVE JoinStr(_, _)
JoinStr(q, sep) == IF q = <<>> THEN "" ELSE IF Len(q) = 1 THEN q[1]
                   ELSE q[1] \o sep \o JoinStr(Tail(q), sep)

RECURSIVE DedupFrom(_, _)
DedupFrom(q, seen) ==
  IF q = <<>> THEN <<>>
  ELSE IF Head(q) \in seen THEN DedupFrom(Tail(q), seen)
       ELSE <<Head(q)>> \o DedupFrom(Tail(q), seen \cup {Head(q)})

\* Canonical form of the path spellings the families use (Canon.tla specifies the function
\* in general; here a path is spelled  prefix ++ name  with a prefix that cancels out).
Prefixes == {"", "./", "zz/../", "./zz/.././", ".\\", "zz\\..\\"}

---------------------------------------------------------------------------
\* Statements.
\*  [k |-> "bind", name, val]
\*  [k |-> "rule", name, binds]            binds: sequence of <<attr, parts>>
\*  [k |-> "build", outs, iouts, rule, ins, imp, oo, val, binds]   paths: [pre, parts]
\*  [k |-> "default", paths] [k |-> "pool", name, depth] [k |-> "comment", text]
\*  [k |-> "include", file] [k |-> "subninja", file]     file: index into files
Path(pre, parts) == [pre |-> pre, parts |-> parts]
PP(s) == Path("", P(s))

LoadState0 == [fv |-> <<>>, rules |-> ("phony" :> <<>>), steps |-> <<>>, defaults |-> <<>>,
               pools |-> <<>>, prod |-> <<>>, err |-> "", errloc |-> <<>>]

EvalPath(p, bb, fv) == EvalParts(p.parts, <<Env(bb, FALSE), Env(fv, TRUE)>>)

Attr(key, bb, rule, implicit, fv) ==
  IF key \in DOMAIN bb THEN [has |-> TRUE, v |-> EvalParts(bb[key], <<Env(fv, TRUE)>>)]
  ELSE IF key \in DOMAIN rule
         THEN [has |-> TRUE,
               v |-> EvalParts(rule[key], <<Env(implicit, TRUE), Env(bb, FALSE), Env(fv, TRUE)>>)]
         ELSE [has |-> FALSE, v |-> ""]

\* One build statement against the state; loc = <<file name, line>>.
DoBuild(st, b, loc) ==
  LET bb == BindMap(b.binds)
      ev(ps) == [i \in DOMAIN ps |-> EvalPath(ps[i], bb, st.fv)]
      xo == ev(b.outs) io == ev(b.iouts)
      xi == ev(b.ins) ii == ev(b.imp) oo == ev(b.oo) vv == ev(b.val)
      allouts == xo \o io
      implicit == ("in" :> JoinStr(xi, " ")) @@ ("out" :> JoinStr(xo, " "))
                  @@ ("in_newline" :> JoinStr(xi, "\n")) @@ ("out_newline" :> JoinStr(xo, "\n"))
      known == b.rule \in DOMAIN st.rules
      rule == IF known THEN st.rules[b.rule] ELSE <<>>
      A(k) == Attr(k, bb, rule, implicit, st.fv)
      taken == {o \in Range(allouts) : o \in DOMAIN st.prod}
      outs2 == DedupFrom(allouts, {})
      nxo2 == Cardinality(Range(xo))
      deps == A("deps")
      step == [outs |-> outs2, nxo |-> nxo2, ins |-> xi \o ii, nxi |-> Len(xi), oo |-> oo, val |-> vv,
               phony |-> ~A("command").has, cmd |-> A("command").v, desc |-> A("description").v,
               depfile |-> A("depfile").v, msvc |-> (deps.has /\ deps.v = "msvc"),
               rsp |-> A("rspfile").v, rspc |-> A("rspfile_content").v,
               hasrsp |-> A("rspfile").has, pool |-> A("pool").v]
  IN IF st.err # "" THEN st
     ELSE IF ~known THEN [st EXCEPT !.err = "unknown_rule"]
     ELSE IF taken # {} THEN
            LET o == CHOOSE t \in taken : TRUE
            IN [st EXCEPT !.err = "dupout", !.errloc = <<loc, st.prod[o]>>]
     ELSE IF deps.has /\ deps.v \notin {"gcc", "msvc"} THEN [st EXCEPT !.err = "baddeps"]
     ELSE IF A("rspfile").has # A("rspfile_content").has THEN [st EXCEPT !.err = "rsp"]
     ELSE [st EXCEPT !.steps = Append(@, step),
                     !.prod = [o \in Range(allouts) |-> loc] @@ @]

\* Lines a statement occupies in the plain one-line-per-statement layout (for locations).
StmtLines(s) ==
  CASE s.k = "rule" -> 1 + Len(s.binds)
    [] s.k = "build" -> 1 + Len(s.binds)
    [] s.k = "pool" -> 2
    [] OTHER -> 1

RECURSIVE LoadFile(_, _, _, _, _)
\* files: all files; f: index of the file being read; i: statement index; line: its line;
\* IncludeShares: TRUE = the required semantics (include extends the including scope)
LoadFile(files, f, i, line, st) ==
  IF i > Len(files[f].stmts) \/ st.err # "" THEN st
  ELSE LET s == files[f].stmts[i]
           loc == <<files[f].name, line>>
           next(st2) == LoadFile(files, f, i + 1, line + StmtLines(s), st2)
       IN CASE s.k = "bind" ->
                 next([st EXCEPT !.fv = (s.name :> EvalParts(s.val, <<Env(st.fv, TRUE)>>)) @@ @])
            [] s.k = "rule" -> next([st EXCEPT !.rules = (s.name :> BindMap(s.binds)) @@ @])
            [] s.k = "build" -> next(DoBuild(st, s, loc))
            [] s.k = "default" ->
                 next([st EXCEPT !.defaults = @ \o [j \in DOMAIN s.paths |->
                                                      EvalPath(s.paths[j], <<>>, st.fv)]])
            [] s.k = "pool" -> next([st EXCEPT !.pools = Append(@, <<s.name, s.depth>>)])
            [] s.k = "comment" -> next(st)
            [] s.k = "include" ->
                 \* the included file sees and extends the including scope
                 next(LoadFile(files, s.file, 1, 1, st))
            [] s.k = "subninja" ->
                 \* the child sees a copy: its bindings do not come back
                 LET child == LoadFile(files, s.file, 1, 1, st)
                 IN next([child EXCEPT !.fv = st.fv])

Load(files) == LoadFile(files, 1, 1, 1, LoadState0)

---------------------------------------------------------------------------
\* Text.  c = [sp, cont, brace, nl, indent, eq]
\*   sp: separator between tokens; cont: where a "$\n" continuation goes in build lines
\*   ("none","kw","colon","rule","paths","pipe"); brace: ${v} instead of $v; nl: final newline;
\*   indent: indentation of bindings; eq: spelling of " = "
TPart(p, c) ==
  CASE p[1] = "lit" -> p[2]
    [] p[1] = "sp" -> "$ "
    [] p[1] = "colon" -> "$:"
    [] p[1] = "dollar" -> "$$"
    [] p[1] = "var" -> IF c.brace THEN "${" \o p[2] \o "}" ELSE "$" \o p[2]
RECURSIVE TParts(_, _)
TParts(ps, c) == IF ps = <<>> THEN "" ELSE TPart(Head(ps), c) \o TParts(Tail(ps), c)
TPath(p, c) == p.pre \o TParts(p.parts, c)

Cont(c, where) == IF c.cont = where THEN c.sp \o "$\n" \o c.indent ELSE c.sp

RECURSIVE TPaths(_, _)
TPaths(ps, c) == IF ps = <<>> THEN ""
                 ELSE Cont(c, "paths") \o TPath(Head(ps), c) \o TPaths(Tail(ps), c)

Section(mark, ps, c) == IF ps = <<>> THEN "" ELSE Cont(c, "pipe") \o mark \o TPaths(ps, c)

RECURSIVE TBinds(_, _)
TBinds(bs, c) == IF bs = <<>> THEN ""
                 ELSE c.indent \o Head(bs)[1] \o c.eq \o TParts(Head(bs)[2], c) \o "\n"
                      \o TBinds(Tail(bs), c)

TStmt(s, c, files) ==
  CASE s.k = "bind" -> s.name \o c.eq \o TParts(s.val, c) \o "\n"
    [] s.k = "rule" -> "rule" \o c.sp \o s.name \o "\n" \o TBinds(s.binds, c)
    [] s.k = "build" ->
         "build" \o (IF c.cont = "kw" THEN c.sp \o "$\n" \o c.indent ELSE "")
         \o TPaths(s.outs, [c EXCEPT !.cont = IF c.cont = "paths" THEN "paths" ELSE "none"])
         \o Section("|", s.iouts, c)
         \o (IF c.cont = "colon" THEN c.sp \o "$\n" \o c.indent ELSE "") \o ":"
         \o Cont(c, "rule") \o s.rule
         \o TPaths(s.ins, c) \o Section("|", s.imp, c) \o Section("||", s.oo, c)
         \o Section("|@", s.val, c) \o "\n" \o TBinds(s.binds, c)
    [] s.k = "default" -> "default" \o TPaths(s.paths, [c EXCEPT !.cont = "none"]) \o "\n"
    [] s.k = "pool" -> "pool" \o c.sp \o s.name \o "\n" \o c.indent \o "depth" \o c.eq
                        \o ToString(s.depth) \o "\n"
    [] s.k = "comment" -> "#" \o s.text \o "\n"
    [] s.k = "include" -> "include" \o c.sp \o files[s.file].name \o "\n"
    [] s.k = "subninja" -> "subninja" \o c.sp \o files[s.file].name \o "\n"

RECURSIVE TStmts(_, _, _)
TStmts(ss, c, files) == IF ss = <<>> THEN "" ELSE TStmt(Head(ss), c, files) \o TStmts(Tail(ss), c, files)

\* Without final newline: drop it from the last statement of the top-level file only if that
\* statement is a single line (the families end with a one-line statement when nl = FALSE).
FileText(files, f, c) == TStmts(files[f].stmts, c, files)

PlainC == [sp |-> " ", cont |-> "none", brace |-> FALSE, nl |-> TRUE, indent |-> "  ", eq |-> " = "]

---------------------------------------------------------------------------
\* Families.

File(name, stmts) == [name |-> name, stmts |-> stmts]
Build(outs, iouts, rule, ins, imp, oo, val, binds) ==
  [k |-> "build", outs |-> outs, iouts |-> iouts, rule |-> rule, ins |-> ins, imp |-> imp,
   oo |-> oo, val |-> val, binds |-> binds]
Rule(name, binds) == [k |-> "rule", name |-> name, binds |-> binds]
Bind(name, val) == [k |-> "bind", name |-> name, val |-> val]

Take(q, n) == SubSeq(q, 1, n)

\* -- shape: every combination of sections present, two path flavours
PlainPaths == [o |-> <<PP("o1"), PP("o2")>>, io |-> <<PP("p1")>>, i |-> <<PP("i1"), PP("i2")>>,
               ii |-> <<PP("j1"), PP("j2")>>, oo |-> <<PP("k1")>>, v |-> <<PP("v1")>>]
EscPaths == [o |-> <<Path("", <<Lit("o"), SP, Lit("1")>>), Path("", <<Lit("d/o"), COLON, Lit("2")>>)>>,
             io |-> <<Path("", <<Lit("p"), DOLLAR, Lit("1")>>)>>,
             i |-> <<Path("", <<Lit("i"), SP, SP, Lit("1")>>), Path("", <<Var("src"), Lit("~2/i~4.c")>>)>>,
             ii |-> <<Path("", <<Lit("j1"), COLON>>), PP("j2")>>,
             oo |-> <<Path("", <<DOLLAR, Lit("k1")>>)>>,
             v |-> <<Path("", <<Lit("v"), SP, Lit("1")>>)>>]

ShapeFiles(paths, n) ==
  <<File("build.ninja",
      << Bind("src", P("sdir")),
         Rule("cc", << <<"command", <<Lit("cc "), Var("in"), Lit(" -o "), Var("out")>> >> >>),
         Build(Take(paths.o, n[1]), Take(paths.io, n[2]), "cc", Take(paths.i, n[3]),
               Take(paths.ii, n[4]), Take(paths.oo, n[5]), Take(paths.v, n[6]), <<>>) >>)>>

ShapeChoices ==
  [sp : {" ", "   "}, cont : {"none", "kw", "colon", "rule", "paths", "pipe"},
   brace : BOOLEAN, nl : {TRUE}, indent : {"  "}, eq : {" = "}]

ShapeInputs ==
  {<<ShapeFiles(ps, n), c>> :
     ps \in {PlainPaths, EscPaths},
     n \in ({1, 2} \X {0, 1} \X (IF Quick THEN {0, 2} ELSE {0, 1, 2}) \X {0, 1, 2} \X {0, 1} \X {0, 1}),
     c \in ShapeChoices}

\* -- attrs: rule attributes, build-level overrides, spelling of bindings
AttrBinds(d, df, dp, rs, pl) ==
  << <<"command", <<Lit("cc "), Var("in"), Lit(" "), DOLLAR, Lit("x "), Var("out")>> >> >>
  \o (IF d THEN << <<"description", <<Lit("CC~3 "), Var("out"), Lit("~2")>> >> >> ELSE <<>>)
  \o (IF df THEN << <<"depfile", <<Var("out"), Lit(".d")>> >> >> ELSE <<>>)
  \o (IF dp = "" THEN <<>> ELSE << <<"deps", P(dp)>> >>)
  \o (IF rs THEN << <<"rspfile", <<Var("out"), Lit(".rsp")>> >>,
                    \* (both forms of the implicit variables side by side: two inputs, two outputs)
                    <<"rspfile_content", <<Var("in_newline"), Lit("|"), Var("in"), Lit(" "), Var("flags"),
                                           Lit("|"), Var("out_newline"), Lit("|"), Var("out")>> >> >> ELSE <<>>)
  \o (IF pl = "" THEN <<>> ELSE << <<"pool", P(pl)>> >>)

AttrFiles(d, df, dp, rs, pl, ov) ==
  <<File("build.ninja",
      << [k |-> "pool", name |-> "lnk", depth |-> 2],
         Bind("flags", P("-O2")),
         Rule("cc", AttrBinds(d, df, dp, rs, pl)),
         Build(<<PP("a.o"), PP("a.lst")>>, <<>>, "cc", <<PP("a.c"), PP("b.c")>>, <<>>, <<>>, <<>>,
               (IF ov THEN << <<"command", <<Lit("own "), Var("flags")>> >>,
                              <<"flags", P("-O0")>> >> ELSE <<>>)),
         [k |-> "default", paths |-> <<PP("a.o")>>] >>)>>

AttrChoices == [sp : {" "}, cont : {"none"}, brace : BOOLEAN, nl : {TRUE},
                indent : {"  ", "      "}, eq : {" = ", "=", "  =  "}]

AttrInputs ==
  {<<AttrFiles(d, df, dp, rs, pl, ov), c>> :
     d \in BOOLEAN, df \in BOOLEAN, dp \in {"", "gcc", "msvc"}, rs \in BOOLEAN,
     pl \in {"", "console", "lnk"}, ov \in BOOLEAN, c \in AttrChoices}

\* -- stmts: several statements, comments, defaults, files split by include / subninja
\* (the binding of d and its re-binding decide what the statements after them mean: moved into
\* a subninja file the re-binding must stay there, moved into an included file it must not)
StmtSeq == << [k |-> "comment", text |-> " generated"],
              Bind("d", P("x")),
              [k |-> "pool", name |-> "p", depth |-> 3],
              Rule("r", << <<"command", <<Lit("run "), Var("out")>> >>, <<"pool", P("p")>> >>),
              Build(<<PP("a")>>, <<>>, "r", <<PP("s")>>, <<Path("", <<Var("d"), Lit(".0")>>)>>, <<>>, <<>>, <<>>),
              [k |-> "comment", text |-> "second"],
              Bind("d", P("y")),
              Build(<<PP("b")>>, <<PP("b2")>>, "r", <<PP("a")>>, <<Path("", <<Var("d"), Lit(".in")>>)>>,
                    <<PP("s2")>>, <<PP("a")>>, <<>>),
              Build(<<PP("all")>>, <<>>, "phony", <<PP("b"), Path("", <<Lit("q"), Var("d")>>)>>, <<>>, <<>>, <<>>, <<>>),
              [k |-> "default", paths |-> <<PP("all")>>],
              [k |-> "default", paths |-> <<PP("a"), PP("b")>>] >>

\* statements i..j moved to a child file, referenced by include or subninja at position i
Split(i, j, how) ==
  <<File("build.ninja",
         Take(StmtSeq, i - 1) \o <<[k |-> how, file |-> 2]>> \o SubSeq(StmtSeq, j + 1, Len(StmtSeq))),
    File("sub/child.ninja", SubSeq(StmtSeq, i, j))>>

StmtsInputs ==
  {<<f, c>> : f \in {<<File("build.ninja", StmtSeq)>>}
                     \cup UNION {{Split(i, j, how) : j \in i..Len(StmtSeq)} :
                                     i \in 1..Len(StmtSeq), how \in {"include", "subninja"}},
              c \in [sp : {" "}, cont : {"none", "paths"}, brace : {FALSE}, nl : {TRUE},
                     indent : {"  "}, eq : {" = "}]}

\* -- scope (C11): bindings at file, rule and build level referencing each other
FileBinds == {<<"a", P("1")>>, <<"a", <<Var("a"), Lit("+2")>>>>, <<"b", <<Var("a")>>>>,
              <<"b", <<Lit("x"), Var("a"), Lit("."), Var("b")>>>>, <<"c", <<Var("b"), Var("zz")>>>>}
\* (a binding to the empty string is a binding: it shadows the outer scope and replaces the
\* rule's attribute)
BuildBinds == {<<>>, << <<"a", P("B")>> >>, << <<"b", <<Var("a"), Lit("!")>>>> >>,
               << <<"a", <<Var("a"), Lit("+")>>>>, <<"b", <<Var("a")>>>> >>,
               << <<"command", <<Lit("own "), Var("a"), Var("b"), Var("in")>>>>, <<"a", P("B")>> >>,
               << <<"a", <<>>>> >>, << <<"description", <<>>>>, <<"b", <<>>>> >>}
RuleCmds == {<<Var("a")>>, <<Var("a"), Lit("."), Var("b"), Lit("."), Var("c")>>,
             <<Var("in"), Lit(">"), Var("out"), Lit(" "), Var("b")>>}

Seqs2(S) == {<<>>} \cup {<<e>> : e \in S} \cup {<<e, f>> : e \in S, f \in S}
ToBinds(q) == [i \in DOMAIN q |-> Bind(q[i][1], q[i][2])]

ScopeStmts(pre, mid, bb, cmd) ==
  [pre |-> ToBinds(pre),
   rule |-> <<Rule("r", << <<"command", cmd>>, <<"description", <<Var("a")>>>> >>)>>,
   mid |-> ToBinds(mid),
   build |-> <<Build(<<Path("", <<Lit("out"), Var("a")>>)>>, <<>>, "r",
                     <<Path("", <<Lit("in"), Var("b")>>)>>, <<>>, <<>>, <<>>, bb)>>,
   post |-> <<Bind("a", P("late"))>>,
   use |-> <<Build(<<PP("last")>>, <<>>, "r", <<PP("s")>>, <<>>, <<>>, <<>>, <<>>)>>,
   use2 |-> <<Build(<<PP("inner")>>, <<>>, "r", <<PP("s")>>, <<>>, <<>>, <<>>, <<>>)>>]

\* placement of the pieces in files
ScopeFiles(s, place) ==
  CASE place = "main" ->
         <<File("build.ninja", s.pre \o s.rule \o s.mid \o s.build \o s.post \o s.use)>>
    [] place = "inc-build" ->       \* the build statement lives in an included file
         <<File("build.ninja", s.pre \o s.rule \o s.mid \o <<[k |-> "include", file |-> 2]>> \o s.post \o s.use),
           File("inc.ninja", s.build)>>
    [] place = "sub-build" ->
         <<File("build.ninja", s.pre \o s.rule \o s.mid \o <<[k |-> "subninja", file |-> 2]>> \o s.post \o s.use),
           File("sub.ninja", s.build)>>
    [] place = "inc-binds" ->       \* bindings made in an included file are seen afterwards
         <<File("build.ninja", s.pre \o s.rule \o <<[k |-> "include", file |-> 2]>> \o s.build \o s.post \o s.use),
           File("inc.ninja", s.mid)>>
    [] place = "inc2-binds" ->      \* ... also through two levels of include
         <<File("build.ninja", s.pre \o s.rule \o <<[k |-> "include", file |-> 2]>> \o s.build \o s.post \o s.use),
           File("mid.ninja", <<[k |-> "comment", text |-> " mid"], [k |-> "include", file |-> 3]>>),
           File("leaf.ninja", s.mid)>>
    [] place = "sub-inc-binds" ->   \* an include inside a subninja extends the subninja's scope only
         <<File("build.ninja", s.pre \o s.rule \o <<[k |-> "subninja", file |-> 2]>> \o s.build \o s.post \o s.use),
           File("mid.ninja", <<[k |-> "include", file |-> 3]>> \o s.use2),
           File("leaf.ninja", s.mid)>>
    [] place = "sub-binds" ->       \* bindings made in a subninja file are not
         <<File("build.ninja", s.pre \o s.rule \o <<[k |-> "subninja", file |-> 2]>> \o s.build \o s.post \o s.use),
           File("sub.ninja", s.mid)>>

ScopeInputs ==
  {<<ScopeFiles(ScopeStmts(pre, mid, bb, cmd), place), c>> :
     pre \in (IF Quick THEN {<<e>> : e \in FileBinds} \cup {<<>>} ELSE Seqs2(FileBinds)),
     mid \in {<<>>} \cup {<<e>> : e \in FileBinds},
     bb \in BuildBinds, cmd \in RuleCmds,
     place \in {"main", "inc-build", "sub-build", "inc-binds", "sub-binds", "inc2-binds", "sub-inc-binds"},
     c \in {PlainC, [PlainC EXCEPT !.brace = TRUE]}}

\* -- dup (C14): repeated outputs within one statement and across statements, any spelling
DupNames == {"d", "e"}
\* (an absolute name as well: a doubled leading separator and a cancelled first component
\* denote the same file)
OutSpell == {Path(pre, P(nm)) : pre \in (IF Quick THEN {"", "zz/../", "zz\\..\\"} ELSE Prefixes), nm \in DupNames}
            \cup {Path(pre, P("/q")) : pre \in {"", "/", "/zz/.."}}
RepSpell == {Path("", P("rep")), Path("zz/../", P("rep"))}
\* (lists of four only over the three short prefixes of the relative names: the enumeration of
\* initial states is serial in TLC and 15^4 lists took more than half an hour)
OutSpellShort == {Path(pre, P(nm)) : pre \in {"", "zz/../", "zz\\..\\"}, nm \in DupNames}
OutLists == UNION {[1..n -> OutSpell] : n \in 1..3}
            \cup (IF Quick THEN {} ELSE [1..4 -> OutSpellShort])

DupOne(outs, k) ==      \* one statement, the first k outputs explicit, the rest implicit
  <<File("build.ninja",
      << Rule("r", << <<"command", P("make")>> >>),
         Build(Take(outs, k), SubSeq(outs, k + 1, Len(outs)), "r", <<PP("s")>>, <<>>, <<>>, <<>>, <<>>) >>)>>

DupTwo(o1, o2, where) ==   \* two statements (one of them possibly in an included file)
  IF where = "include-first"
    THEN \* the first producer lives in an included file, the second follows the include line
         <<File("build.ninja",
             << Rule("r", << <<"command", P("make")>> >>),
                [k |-> "include", file |-> 2],
                [k |-> "comment", text |-> ""],
                Build(<<PP("f")>>, o2, "r", <<PP("s")>>, <<>>, <<>>, <<>>, <<>>) >>),
           File("child.ninja", << Build(o1, <<>>, "r", <<PP("s")>>, <<>>, <<>>, <<>>, <<>>) >>)>>
  ELSE IF where = "main"
    THEN <<File("build.ninja",
             << Rule("r", << <<"command", P("make")>> >>),
                Build(o1, <<>>, "r", <<PP("s")>>, <<>>, <<>>, <<>>, <<>>),
                [k |-> "comment", text |-> ""],
                Build(<<PP("f")>>, o2, "r", <<PP("s")>>, <<>>, <<>>, <<>>, <<>>) >>)>>
    ELSE <<File("build.ninja",
             << Rule("r", << <<"command", P("make")>> >>),
                Build(o1, <<>>, "r", <<PP("s")>>, <<>>, <<>>, <<>>, <<>>),
                [k |-> where, file |-> 2] >>),
           File("child.ninja", << Build(<<PP("f")>>, o2, "r", <<PP("s")>>, <<>>, <<>>, <<>>, <<>>) >>)>>

DupInputs ==
  UNION {{<<DupOne(outs, k), PlainC>> : k \in 1..Len(outs)} : outs \in OutLists}
  \cup {<<DupTwo(<<a>>, <<b>>, w), PlainC>> : a \in OutSpell, b \in OutSpell,
                                             w \in {"main", "include", "subninja", "include-first"}}
  \cup {<<DupTwo(<<a, a2>>, <<b>>, w), PlainC>> : a \in OutSpell, a2 \in OutSpell, b \in OutSpell,
                                                  w \in {"main"}}
  \* a statement that repeats one of its own outputs and, after the repeat, names a file another
  \* statement produces (either statement first)
  \cup {<<DupTwo(<<a>>, <<r, r2, b>>, w), PlainC>> : a \in OutSpell, b \in OutSpell, r \in RepSpell, r2 \in RepSpell,
                                                    w \in {"main", "include"}}
  \cup {<<DupTwo(<<r, r2, a>>, <<b>>, w), PlainC>> : a \in OutSpell, b \in OutSpell, r \in RepSpell, r2 \in RepSpell,
                                                    w \in {"main", "subninja"}}

Inputs ==
  CASE Family = "shape" -> ShapeInputs
    [] Family = "attrs" -> AttrInputs
    [] Family = "stmts" -> StmtsInputs
    [] Family = "scope" -> ScopeInputs
    [] Family = "dup"   -> DupInputs

Init == x \in Inputs
Next == UNCHANGED x
Spec == Init /\ [][Next]_x

---------------------------------------------------------------------------
\* Path canonicalisation for the spellings used here: strip the cancelling prefix.
CanonPath(p, st) == p    \* (evaluated paths of these families are canonical except for `pre`)

\* The expected graph: Load of the abstract manifest, with path prefixes cancelled — Load
\* works on evaluated parts only and never sees `pre`, which is exactly the statement that
\* prefix-spellings denote the same file.
Result == Load(x[1])

\* C10: the result is a function of the abstract manifest alone (it is computed from x[1]);
\* C14 laws on the specification:
DupLaw ==
  Family = "dup" =>
    LET r == Result IN
      \/ r.err = "dupout"
      \/ /\ r.err = ""
         /\ \A i \in DOMAIN r.steps : Cardinality(Range(r.steps[i].outs)) = Len(r.steps[i].outs)
         /\ \A i, j \in DOMAIN r.steps : i # j => Range(r.steps[i].outs) \cap Range(r.steps[j].outs) = {}

Emit ==
  LET r == Result
      files == x[1]
      txt(f) == LET t == FileText(files, f, x[2]) IN t
  IN PrintT(<<"VEC", ToJson(
       [files |-> [f \in DOMAIN files |-> [name |-> files[f].name, text |-> txt(f)]],
        nl |-> x[2].nl,
        expect |-> IF r.err = ""
                     THEN [ok |-> TRUE, steps |-> r.steps, defaults |-> r.defaults, pools |-> r.pools]
                     ELSE [ok |-> FALSE, errk |-> r.err, locs |-> r.errloc]])>>)
=============================================================================
