----------------------------- MODULE NinjaTokens -----------------------------
(***************************************************************************)
(* Input generator for C12: every string of at most MaxLen tokens over the *)
(* lexical alphabet of the manifest language (keywords, identifiers,       *)
(* paths, the separators of a build line, every kind of '$' escape         *)
(* including the dangling ones, comments, indentation, newlines, NUL, TAB, *)
(* CR, a long filler that pushes the error column past the excerpt window, *)
(* multi-byte characters), and the scanner protocol every run must obey.   *)
(*                                                                         *)
(* The specification does not predict which strings load; it states what   *)
(* any outcome must look like (Outcome) — the replay checks that.          *)
(***************************************************************************)
EXTENDS Naturals, Sequences, FiniteSets, TLC, Json

CONSTANTS MaxLen, Tier

VARIABLE x

\* 2-byte, 3-byte and 4-byte characters are written by the replay for these placeholders
\* (TLC strings stay ASCII): U2 U3 U4.
Tokens ==
  << "build ", "rule ", "default ", "pool ", "include ", "subninja ",
     "x", "a.b", "cc", "phony", "build.ninja",     \* (the manifest's own name: include cycles)
     " ", "  ", "=", ":", "|", "||", "|@",
     "$x", "${x}", "${", "$", "$\n", "$ ", "$:", "$$", "$-",
     "#c", "\n", "\t", "\r", "\r\n",
     "U2", "U4",
     "command", "depth", "deps",
     "aaaaaaaaaaaaaaaaaaaaaaaaaaaaaaaaaaaaaaaaaaaaa" >>

\* tokens of identical lexical class merged for the deeper bound
TokensSmall ==
  << "build ", "rule ", "x", " ", "=", ":", "|", "$x", "${", "$", "$\n", "\n", "U2",
     "aaaaaaaaaaaaaaaaaaaaaaaaaaaaaaaaaaaaaaaaaaaaa" >>

Alphabet == IF Tier = "wide" THEN Tokens ELSE TokensSmall

RECURSIVE Str(_)
Str(s) == IF s = <<>> THEN "" ELSE Alphabet[Head(s)] \o Str(Tail(s))

Inputs == UNION {[1..n -> DOMAIN Alphabet] : n \in 0..MaxLen}

Init == x \in Inputs
Next == UNCHANGED x
Spec == Init /\ [][Next]_x

\* What any outcome of loading must look like.
Outcome(o) ==
  \/ o.kind = "loaded"
  \/ /\ o.kind = "rejected"
     /\ o.syntax => (o.hasFileLine /\ o.hasCaret)
\* (never "panic", "abort", "timeout")

\* Scanner protocol (scanner.rs): a cursor over a NUL-terminated buffer.
\*   read:  requires ofs < len           back: requires ofs > 0
\*   slice(a, b): requires a <= b <= len
ScannerOpOK(op, ofs, len) ==
  CASE op.k = "read"  -> ofs < len
    [] op.k = "back"  -> ofs > 0
    [] op.k = "slice" -> op.a <= op.b /\ op.b <= len
    [] OTHER -> TRUE

Emit == PrintT(<<"VEC", ToJson([text |-> Str(x)])>>)
=============================================================================
