-------------------------------- MODULE Render --------------------------------
(***************************************************************************)
(* The helpers behind the fancy progress display (C20), over strings given *)
(* as sequences of characters of which only the UTF-8 byte width (1..4)    *)
(* matters.                                                                *)
(*                                                                         *)
(*  Truncate(s, max)        longest prefix of whole characters with at     *)
(*                          most max bytes                                  *)
(*  TaskMessage(m, secs, c) the message, cut with "..." when message plus  *)
(*                          time note would not fit c columns (bytes), the *)
(*                          time note " (Ns)" appended when secs > 2       *)
(*  Bar(counts, n)          the progress bar, exactly n cells              *)
(***************************************************************************)
EXTENDS Naturals, Integers, Sequences, FiniteSets, TLC, Json

CONSTANTS MaxChars, Mode    \* Mode = "task" | "trunc" | "bar"

VARIABLE x

RECURSIVE Bytes(_)
Bytes(s) == IF s = <<>> THEN 0 ELSE Head(s) + Bytes(Tail(s))

\* number of characters of the longest whole-character prefix with at most max bytes
RECURSIVE KeepChars(_, _)
KeepChars(s, max) ==
  IF s = <<>> \/ Head(s) > max THEN 0 ELSE 1 + KeepChars(Tail(s), max - Head(s))

Truncate(s, max) == SubSeq(s, 1, KeepChars(s, max))

Digits(n) == IF n < 10 THEN 1 ELSE IF n < 100 THEN 2 ELSE IF n < 1000 THEN 3
             ELSE IF n < 10000 THEN 4 ELSE IF n < 100000 THEN 5 ELSE IF n < 1000000 THEN 6 ELSE 7
NoteLen(secs) == IF secs > 2 THEN 4 + Digits(secs) ELSE 0        \* " (" digits "s)"

\* [keep, dots, note]: keep = characters of the message kept, dots = "..." appended
TaskMessage(m, secs, cols) ==
  IF Bytes(m) + NoteLen(secs) >= cols
    THEN LET room == cols - NoteLen(secs) - 3
         IN [keep |-> KeepChars(m, IF room > 0 THEN room ELSE 0), dots |-> TRUE, note |-> secs > 2]
    ELSE [keep |-> Len(m), dots |-> FALSE, note |-> secs > 2]

TaskBytes(m, secs, cols) ==
  LET r == TaskMessage(m, secs, cols)
  IN Bytes(SubSeq(m, 1, r.keep)) + (IF r.dots THEN 3 ELSE 0) + NoteLen(secs)

\* The bar: done+failed '=', queued+running+ready '-', want ' ', scaled to n cells, each
\* non-empty class at least one cell while cells remain.
\* counts = <<want, ready, queued, running, done, failed>>
RECURSIVE Fill(_, _, _, _, _)
Fill(classes, sum, total, n, bar) ==
  IF classes = <<>> THEN bar
  ELSE LET cnt == Head(classes)[1]
           ch == Head(classes)[2]
           sum2 == sum + cnt
           t0 == (sum2 * n) \div total
           t1 == IF cnt > 0 /\ t0 = Len(bar) /\ t0 < n THEN t0 + 1 ELSE t0
           add == IF t1 > Len(bar) THEN t1 - Len(bar) ELSE 0
       IN Fill(Tail(classes), sum2, total, n, bar \o [i \in 1..add |-> ch])

Bar(c, n) ==
  LET total == c[1] + c[2] + c[3] + c[4] + c[5] + c[6]
  IN IF total = 0 THEN [i \in 1..n |-> " "]
     ELSE Fill(<< <<c[5] + c[6], "=">>, <<c[3] + c[4] + c[2], "-">>, <<c[1], " ">> >>, 0, total, n, <<>>)

RECURSIVE Str(_)
Str(s) == IF s = <<>> THEN "" ELSE Head(s) \o Str(Tail(s))

---------------------------------------------------------------------------
Widths == 1..4
Msgs == UNION {[1..n -> Widths] : n \in 0..MaxChars}
        \cup {[i \in 1..12 |-> 2], [i \in 1..9 |-> 3], [i \in 1..30 |-> 1],
              [i \in 1..14 |-> IF i % 2 = 0 THEN 4 ELSE 1], [i \in 1..40 |-> (i % 4) + 1]}
Cols == {10, 11, 12, 13, 14, 15, 17, 20, 40, 80, 300}
Secs == {0, 2, 3, 9, 10, 99, 100, 1000, 1000000}
Maxes == 0..21 \cup {38, 78, 298}
CountVecs == {c \in [1..6 -> 0..6] : c[1] + c[2] + c[3] + c[4] + c[5] + c[6] <= 6}
BarSizes == {1, 10, 40}

Init == CASE Mode = "task"  -> x \in (Msgs \X Secs \X Cols)
          [] Mode = "trunc" -> x \in (Msgs \X Maxes)
          [] Mode = "bar"   -> x \in (CountVecs \X BarSizes)
Next == UNCHANGED x
Spec == Init /\ [][Next]_x

\* Laws (checked by TLC on the specification itself).
Laws ==
  CASE Mode = "task" ->
         LET m == x[1] secs == x[2] cols == x[3] r == TaskMessage(m, secs, cols) IN
         /\ r.keep <= Len(m)
         \* cut to at most the terminal width whenever the width leaves room for "..." and note
         /\ (r.dots /\ cols >= NoteLen(secs) + 3) => TaskBytes(m, secs, cols) <= cols
         /\ ~r.dots => TaskBytes(m, secs, cols) < cols
    [] Mode = "trunc" ->
         LET s == x[1] max == x[2] t == Truncate(s, max) IN
         /\ Bytes(t) <= max
         /\ (Len(t) < Len(s) => Bytes(t) + s[Len(t) + 1] > max)
         /\ (Bytes(s) <= max => t = s)
    [] Mode = "bar" ->
         LET b == Bar(x[1], x[2]) IN
         /\ Len(b) = x[2]
         /\ \A i, j \in DOMAIN b : (i < j /\ b[i] # b[j]) =>
               <<b[i], b[j]>> \in {<<"=", "-">>, <<"=", " ">>, <<"-", " ">>}

Emit ==
  CASE Mode = "task" ->
         PrintT(<<"VEC", ToJson([m |-> x[1], secs |-> x[2], cols |-> x[3],
                                 r |-> TaskMessage(x[1], x[2], x[3])])>>)
    [] Mode = "trunc" ->
         PrintT(<<"VEC", ToJson([m |-> x[1], max |-> x[2], keep |-> KeepChars(x[1], x[2])])>>)
    [] Mode = "bar" ->
         PrintT(<<"VEC", ToJson([c |-> x[1], n |-> x[2], bar |-> Str(Bar(x[1], x[2]))])>>)
=============================================================================
