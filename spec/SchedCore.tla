------------------------------ MODULE SchedCore ------------------------------
(***************************************************************************)
(* The arithmetic of BuildStates::set, stated over the only two facts      *)
(* about the graph it uses (which steps exist, which are phony) so that    *)
(* one and the same text is read by TLC (through N2Sched, which N2Work and *)
(* TraceObs use) and by Apalache (spec/apalache/SchedInd.tla, the          *)
(* inductive check of the bookkeeping lemma for every graph and every      *)
(* consistent state).  The comments starting with @type are Apalache's     *)
(* type annotations; TLC ignores them.                                     *)
(***************************************************************************)
EXTENDS Integers, FiniteSets

CoreStates  == {"Unknown", "Want", "Ready", "Queued", "Running", "Done", "Failed"}
CoreCounted == CoreStates \ {"Unknown"}
CoreOpen    == {"Want", "Ready", "Queued", "Running"}

\* iv = [st, ready, pending, counts]; new: the steps that change |-> their new states.
\* @type: (Set(Int), { st: Int -> Str, ready: Set(Int), pending: Int, counts: Str -> Int }, Int -> Str) => { st: Int -> Str, ready: Set(Int), pending: Int, counts: Str -> Int };
CoreSet(phony, iv, new) ==
  [st |-> [s \in DOMAIN iv.st |-> IF s \in DOMAIN new THEN new[s] ELSE iv.st[s]],
   counts |-> [x \in CoreCounted |->
                  (iv.counts[x] + Cardinality({s \in DOMAIN new : s \notin phony /\ new[s] = x}))
                  - Cardinality({s \in DOMAIN new : s \notin phony /\ iv.st[s] = x})],
   pending |-> (iv.pending + Cardinality({s \in DOMAIN new : iv.st[s] = "Unknown"}))
               - Cardinality({s \in DOMAIN new : new[s] \in {"Done", "Failed"}}),
   ready |-> (iv.ready \ DOMAIN new) \cup {s \in DOMAIN new : new[s] = "Ready"}]

\* The side views are functions of the state map.
\* @type: (Set(Int), Set(Int), { st: Int -> Str, ready: Set(Int), pending: Int, counts: Str -> Int }) => Bool;
CoreConsistent(steps, phony, iv) ==
  /\ \A x \in CoreCounted :
        iv.counts[x] = Cardinality({s \in steps : s \notin phony /\ iv.st[s] = x})
  /\ iv.pending = Cardinality({s \in steps : iv.st[s] \in CoreOpen})
  /\ iv.ready = {s \in steps : iv.st[s] = "Ready"}
=============================================================================
