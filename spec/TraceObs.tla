------------------------------ MODULE TraceObs ------------------------------
(***************************************************************************)
(* Trace specification ("permissive mirror with labelled guards", DESIGN   *)
(* 2.2).  It consumes the events recorded from the real n2 one by one.     *)
(* The mirrored state w always follows the logged event; every guard of    *)
(* the corresponding specification action and every monitor of N2Props is  *)
(* evaluated separately and, when false, recorded in w.viol as             *)
(* <<property id, event index>>.  Label "CONF" = the implementation left   *)
(* the implementation-shaped specification in a way no listed property     *)
(* forbids (specification drift), never a property violation.              *)
(***************************************************************************)
EXTENDS N2Store, N2Sched, TLC, Json, IOUtils

Rec == ndJsonDeserialize(IOEnv.TRACE)

VARIABLES l, w

vars == <<l, w>>

EmptyG == [steps |-> <<>>, pools |-> <<>>, defaults |-> <<>>]
NoPend == [s |-> 0, deps |-> <<>>]
NoInv  == [targets |-> <<>>, j |-> 1, k |-> 0, adopt |-> FALSE, file |-> "build.ninja", explain |-> FALSE,
           cdir |-> ""]
\* What `-d explain` last said and has not yet been matched with a check result.
NoXpl  == [kind |-> "", loc |-> "", file |-> "", sig |-> <<>>]

\* Counters proving the monitors were exercised (non-vacuity), kept across scenarios.
Cov0 == [scn |-> 0, inv |-> 0, start |-> 0, finish |-> 0, fail |-> 0, intr |-> 0, pu |-> 0,
         dbw |-> 0, work |-> 0, endok |-> 0, endfail |-> 0, enderr |-> 0,
         startAtJ |-> 0, startAtPool |-> 0, startPar |-> 0, cleanSkip |-> 0,
         skipAfterChange |-> 0, reload |-> 0, repeatInv |-> 0, adoptRec |-> 0,
         discRec |-> 0, outsideClosure |-> 0, keptGoing |-> 0, stall |-> 0,
         crash |-> 0, kill |-> 0, cycle |-> 0, unknownPath |-> 0, multiOrder |-> 0,
         loadedRec |-> 0, valRun |-> 0, badgraph |-> 0, expect |-> 0,
         rmdir |-> 0, xplMissing |-> 0, xplNorec |-> 0, xplChanged |-> 0, xplClean |-> 0]

Fresh(id, fam, viol, cov) ==
  [scn |-> id, fam |-> fam,
   manif |-> <<>>, file |-> <<>>, log |-> <<>>,
   g |-> EmptyG, inv |-> NoInv, workNo |-> 0, bad |-> FALSE,
   cur |-> <<>>, st |-> <<>>,
   iv |-> SchedInit(EmptyG), pq |-> <<>>, pr |-> <<>>, owed |-> {}, fout |-> <<>>,
   started |-> {}, finOK |-> {}, finFail |-> {}, intr |-> {}, run |-> {},
   nOK |-> 0, p1ok |-> FALSE, pend |-> NoPend, lastDF |-> 0,
   shown |-> "", shownMsvc |-> FALSE, lastFin |-> 0, lastReads |-> <<>>, lastHasDep |-> FALSE,
   prevOK |-> FALSE, prevTargets |-> <<>>, prevFile |-> "", changed |-> TRUE, repeat |-> FALSE,
   inInv |-> FALSE, errSeen |-> FALSE, lastOk |-> FALSE, p1names |-> {},
   xpl |-> NoXpl, locs |-> <<>>, lastSum |-> <<"none", 0>>, crashed |-> FALSE, logBytes |-> 0,
   viol |-> viol, cov |-> cov]

Init == l = 1 /\ w = Fresh("", "", {}, Cov0)

Lbl(ids, tag, ok) == IF ok THEN {} ELSE {<<id, tag, l>> : id \in ids}
Bump(c, f) == [c EXCEPT ![f] = @ + 1]
BumpIf(c, f, b) == IF b THEN Bump(c, f) ELSE c

NonPhony(g, S) == {s \in S : ~IsPhony(g, s)}

---------------------------------------------------------------------------
\* Derived notions for the running invocation.

MFile == w.inv.file
\* Phase 1: the steps needed for the manifest itself.
W1(g) == Needed(g, {MFile})
KnownName(g, t) == t \in AllFiles(g) \cup {MFile}
UnknownTargets(g) ==
  IF w.inv.adopt THEN {} ELSE {t \in Range(w.inv.targets) : ~KnownName(g, t)}
T2(g) == IF UnknownTargets(g) # {} THEN {} ELSE TargetFiles(g, w.inv.targets, MFile)
\* The whole wanted closure of the current Work.
W(g) == IF w.workNo = 1 THEN W1(g) \cup Needed(g, T2(g)) ELSE Needed(g, T2(g))

\* What want_file may be asked for: n2 resolves the names in order and stops at the first
\* unknown one, so the closure of the known names before it may already have been wanted (and
\* nothing is run: C18).
WScope(g) == W(g) \cup Needed(g, {t \in Range(w.inv.targets) : KnownName(g, t)} \ {MFile})
CurRec(s) == IF s \in DOMAIN w.cur THEN w.cur[s] ELSE NoRec
DirtyNow(g, s) == Dirty(g, w.file, CurRec(s), s)
StOf(s) == IF s \in DOMAIN w.st THEN w.st[s] ELSE "Unknown"

\* Spellings the scenario used for files of the current manifest (manifest text, reported
\* dependencies, command line): <<spelling, canonical name>> with spelling # canonical.
SpellTable(g) == IF "spell" \in DOMAIN g THEN Range(g.spell) ELSE {}
Uncanonical(g) == {p[1] : p \in SpellTable(g)} \ ({p[2] : p \in SpellTable(g)} \cup AllFiles(g))
CanonOf(g, n) == IF \E p \in SpellTable(g) : p[1] = n
                   THEN (CHOOSE p \in SpellTable(g) : p[1] = n)[2] ELSE n
DumpNames(b) == Range(b.outs) \cup Range(b.ins) \cup Range(b.oo) \cup Range(b.val) \cup Range(b.disc)

\* (the pool of a step is compared separately: a step loaded into the wrong pool does not stop
\* the mirror, what then runs concurrently is judged against the declared pool, C04)
StepFields == {"outs", "nxo", "ins", "nxi", "oo", "val", "phony", "cmd", "desc",
               "depfile", "msvc", "rsp", "rspc", "hasrsp"}
SameStep(a, b) == \A f \in StepFields : a[f] = b[f]

NamesOf(g, S) == {g.steps[s].outs[1] : s \in S}
SumSeq6(c) == c[1] + c[2] + c[3] + c[4] + c[5] + c[6]
CountSt(g, x) == Cardinality({s \in StepIds(g) : ~IsPhony(g, s) /\ StOf(s) = x})

ApplyWrites(file, ws) ==
  LET names == {ws[i].path : i \in DOMAIN ws}
      last(p) == ws[MaxOf({i \in DOMAIN ws : ws[i].path = p})].mt
  IN  [p \in names |-> last(p)] @@ file

\* The implementation view (DESIGN 12.9): the scheduler's bookkeeping as N2Work models it,
\* advanced with N2Sched's operators from the `set` events of the real BuildStates::set.
PoolNames(g) == {"", "console"} \cup {g.pools[i][1] : i \in DOMAIN g.pools}
                   \cup {PoolOf(g, s) : s \in StepIds(g)}
CountsSeq(c) == <<c["Want"], c["Ready"], c["Queued"], c["Running"], c["Done"], c["Failed"]>>
NRunModel == Cardinality({x \in DOMAIN w.iv.st : w.iv.st[x] = "Running"})
\* Pending promotions must have been made before anything else happens.
OwedLbl == Lbl({"CONF"}, "promotion-missed", w.owed = {})

\* -d explain (DESIGN 12.13): what the check of a dirty step s said (x) is the manifest rule's
\* reason for the step's current record, and what it listed as hashed is the rule's signature.
XplReasonOK(g, s, x) ==
  LET rec == CurRec(s)
      miss == MissingOf(g, w.file, s, rec.deps)
  IN /\ x.kind \in {"missing", "norec", "changed"}
     /\ s \in DOMAIN w.locs /\ x.loc = w.locs[s]
     /\ CASE x.kind = "missing" -> x.file \in miss
          [] x.kind = "norec" -> miss = {} /\ rec.tok = ""
          [] OTHER -> /\ miss = {} /\ rec.tok # ""
                      /\ x.sig = SigShown(g, w.file, s, rec.deps)

---------------------------------------------------------------------------
\* One operator per event kind: the next mirrored state.

DoScn(ev) == Fresh(ev.id, ev.fam, w.viol, Bump(w.cov, "scn"))

DoManifest(ev) ==
  [w EXCEPT !.manif = (ev.name :> ev.g) @@ @,
            !.file = (ev.name :> ev.mt) @@ @,
            !.changed = TRUE]

DoFs(ev) == [w EXCEPT !.file = (ev.path :> ev.mt) @@ @, !.changed = TRUE]

DoInvoke(ev) ==
  LET inv == [targets |-> ev.targets, j |-> ev.j, k |-> ev.k, adopt |-> ev.adopt, file |-> ev.file,
              explain |-> ev.explain, cdir |-> ev.cdir]
      rep == w.prevOK /\ ~w.changed /\ ev.targets = w.prevTargets /\ ev.file = w.prevFile
  IN [w EXCEPT !.inv = inv, !.workNo = 0, !.bad = FALSE, !.g = EmptyG,
               !.cur = <<>>, !.st = <<>>,
               !.iv = SchedInit(EmptyG), !.pq = <<>>, !.pr = <<>>, !.owed = {}, !.fout = <<>>,
               !.started = {}, !.finOK = {}, !.finFail = {}, !.intr = {}, !.run = {},
               !.nOK = 0, !.p1ok = FALSE, !.pend = NoPend, !.lastDF = 0, !.lastFin = 0,
               !.repeat = rep, !.inInv = TRUE, !.errSeen = FALSE, !.p1names = {},
               !.xpl = NoXpl, !.locs = <<>>,
               !.cov = BumpIf(Bump(@, "inv"), "repeatInv", rep)]

DoWork(ev) ==
  LET known == MFile \in DOMAIN w.manif
      g2 == IF known THEN w.manif[MFile] ELSE EmptyG
      same == /\ known
              /\ Len(ev.builds) = Len(g2.steps)
              /\ \A i \in DOMAIN g2.steps : SameStep(ev.builds[i], g2.steps[i])
      \* (a pool table that differs from the declared one does not stop the mirror: what then
      \* runs concurrently is judged against the declared depths, C04)
      samePools == /\ Range(ev.pools) = Range(g2.pools)
                   /\ (same => \A i \in DOMAIN g2.steps : ev.builds[i].pool = g2.steps[i].pool)
      ld == Loaded(g2, w.log)
      ldok == \A s \in StepIds(g2) :
                 ev.builds[s].tok = ld[s].tok /\ ev.builds[s].disc = ld[s].deps
      nld == Cardinality({s \in StepIds(g2) : ld[s].tok # ""})
      v == Lbl(IF ev.n = 1 THEN {"C10"} ELSE {"C10", "C17"}, "graph", same)
           \cup Lbl(IF ev.n = 1 THEN {"C10"} ELSE {"C10", "C17"}, "graph-pools", known => samePools)
           \cup Lbl({"C13"}, "uncanonical-node",
                  known => \A i \in DOMAIN ev.builds : DumpNames(ev.builds[i]) \cap Uncanonical(g2) = {})
           \cup (IF same THEN Lbl({"C08", "C07"}, "loaded", ldok) ELSE {})
           \cup Lbl({"C17"}, "reload-without-run", ev.n = 1 \/ w.p1ok)
  IN [w EXCEPT !.g = g2, !.workNo = ev.n, !.bad = ~same,
               !.cur = IF same THEN ld ELSE <<>>,
               !.st = [s \in StepIds(g2) |-> "Unknown"],
               !.iv = SchedInit(g2),
               !.pq = [q \in PoolNames(g2) |-> {}], !.pr = [q \in PoolNames(g2) |-> 0],
               !.owed = {}, !.fout = <<>>,
               !.xpl = NoXpl, !.locs = [i \in DOMAIN ev.builds |-> ev.builds[i].loc],
               !.p1names = IF ev.n = 2 /\ ~w.bad THEN {w.g.steps[s].outs[1] : s \in w.started} ELSE {},
               !.started = {}, !.finOK = {}, !.finFail = {}, !.intr = {}, !.run = {},
               !.pend = NoPend, !.lastDF = 0,
               !.viol = @ \cup v,
               !.cov = BumpIf(BumpIf([Bump(@, "work") EXCEPT !.loadedRec = @ + nld],
                                     "reload", ev.n = 2), "badgraph", ~same)]

DoSet(ev) ==
  LET g == w.g
      s == ev.id
      okid == s \in StepIds(g)
      new == ev.new
      q == PoolOf(g, s)
      norec == /\ ev.new = "Done" /\ ev.prev = "Running" /\ w.pend.s = s
               /\ MissingOf(g, w.file, s, w.pend.deps) = {}
      \* N2Work's bookkeeping applied to the mirrored state
      iv2 == SchedSet(g, w.iv, s :> new)
      pq2 == IF new = "Queued" THEN [w.pq EXCEPT ![q] = @ \cup {s}]
             ELSE IF new = "Running" THEN [w.pq EXCEPT ![q] = @ \ {s}] ELSE w.pq
      pr2 == IF new = "Running" THEN [w.pr EXCEPT ![q] = @ + 1]
             ELSE IF ev.prev = "Running" THEN [w.pr EXCEPT ![q] = @ - 1] ELSE w.pr
      \* what the code's pool table shows at the hook: running after the change; the queue
      \* before the step itself is pushed (enqueue pushes after set)
      expPools == {<<p, pr2[p], Cardinality(pq2[p]) - (IF new = "Queued" /\ p = q THEN 1 ELSE 0)>> :
                     p \in {x \in PoolNames(g) : PoolDepth(g, x) >= 0}}
      shownPools == {t \in expPools : t[2] > 0 \/ t[3] > 0}
      fo == IF s \in DOMAIN w.fout THEN w.fout[s] ELSE ""
      \* the guard of the N2Work action this transition belongs to
      guard ==
        CASE ev.prev = "Unknown" -> /\ s \in WScope(g)
                                    /\ (new = "Ready") = SchedReadyNow(g, w.iv.st, s)
          [] ev.prev = "Want" /\ new = "Want" -> s \in WScope(g) /\ ~SchedReadyNow(g, w.iv.st, s)
          [] ev.prev = "Want" -> s \in w.owed
          [] ev.prev = "Ready" /\ new = "Done" -> w.inv.adopt \/ ~DirtyNow(g, s)
          [] ev.prev = "Ready" /\ new = "Queued" -> DirtyNow(g, s) /\ ~w.inv.adopt
          [] ev.prev = "Queued" -> /\ s \in w.pq[q] /\ NRunModel < w.inv.j
                                   /\ PoolDepth(g, q) >= 0 /\ SchedPoolHasRoom(g, w.pr, q)
          [] ev.prev = "Running" /\ new = "Done" -> fo = "ok"
          [] ev.prev = "Running" /\ new = "Failed" -> fo = "fail"
          [] OTHER -> TRUE
      \* -d explain (DESIGN 12.13): the check of a Ready step said why it is dirty, exactly when
      \* the manifest rule calls it dirty, with the rule's reason, and what it listed as hashed
      \* is the rule's signature.
      x == w.xpl
      xplok ==
        IF ~w.inv.explain \/ ev.prev # "Ready" \/ x.kind = "used" THEN TRUE
        ELSE IF ~DirtyNow(g, s) THEN x.kind = ""
        ELSE XplReasonOK(g, s, x)
      owed2 == IF new = "Done" THEN SchedPromoted(g, w.iv.st, s)
               ELSE IF ev.prev = "Want" THEN w.owed \ {s} ELSE {}
      v == Lbl({"CONF"}, "set-prev", okid /\ StOf(s) = ev.prev)
           \cup Lbl({"C02"}, "no-record", ~norec)
           \cup Lbl({"CONF"}, "set-illegal", <<ev.prev, new>> \in SchedLegal \cup {SchedRewant})
           \cup Lbl({"CONF"}, "set-guard", guard)
           \cup Lbl({"CONF"}, "set-counts", ev.counts = CountsSeq(iv2.counts))
           \cup Lbl({"CONF"}, "set-pending", ev.pending = iv2.pending)
           \cup Lbl({"CONF"}, "set-pools", Range(ev.pools) = shownPools)
           \cup Lbl({"CONF"}, "explain", xplok)
           \cup (IF ev.prev = "Want" THEN {} ELSE OwedLbl)
  IN IF w.bad \/ ~okid THEN [w EXCEPT !.viol = @ \cup Lbl({"CONF"}, "bad-graph", w.bad)]
     ELSE [w EXCEPT !.st = (s :> ev.new) @@ @,
                    !.iv = iv2, !.pq = pq2, !.pr = pr2, !.owed = owed2,
                    !.pend = IF w.pend.s = s /\ ev.new = "Done" THEN NoPend ELSE @,
                    !.xpl = IF ev.prev = "Ready" THEN NoXpl ELSE @,
                    !.cov = IF w.inv.explain /\ ev.prev = "Ready"
                              THEN Bump(@, CASE x.kind = "missing" -> "xplMissing"
                                             [] x.kind = "norec" -> "xplNorec"
                                             [] x.kind = "changed" -> "xplChanged"
                                             [] OTHER -> "xplClean")
                              ELSE @,
                    !.viol = @ \cup v]

DoStart(ev) ==
  LET g == w.g
      s == ev.id
      K == w.inv.k
      pool == PoolOf(g, s)
      depth == PoolDepth(g, pool)
      inPool == {r \in w.run : PoolOf(g, r) = pool}
      rspok == IF g.steps[s].hasrsp
                 THEN ev.rsp = <<g.steps[s].rsp, g.steps[s].rspc>> ELSE ev.rsp = <<>>
      inW1 == s \in W1(g)
      p17 == IF w.workNo = 1 /\ HasProducer(g, MFile)
               THEN IF inW1 THEN w.started \subseteq W1(g)
                            ELSE w.started \cap W1(g) = {}
               ELSE TRUE
      v == Lbl({"C01"}, "restart", s \notin w.started)
           \cup Lbl({"C01"}, "producer-unfinished", \A p \in TransProducers(g, s) : p \in w.finOK \/ p \notin w.started)
           \cup Lbl({"C01"}, "dependent-started", \A d \in TransDependents(g, s) : d \notin w.started)
           \cup Lbl({"C03"}, "clean-started", DirtyNow(g, s))
           \cup Lbl({"C03"}, "repeat-started", ~w.repeat)
           \cup Lbl({"C04"}, "j-exceeded", Cardinality(w.run) < w.inv.j)
           \cup Lbl({"C04"}, "pool-exceeded", depth >= 0 /\ (depth > 0 => Cardinality(inPool) < depth))
           \cup Lbl({"C05"}, "failed-producer", \A p \in TransProducers(g, s) : p \notin w.finFail \cup w.intr)
           \cup Lbl({"C05"}, "budget", (K > 0 => Cardinality(w.finFail) < K) /\ w.intr = {})
           \cup Lbl({"C18"}, "outside-closure", s \in W(g))
           \cup Lbl({"C16"}, "cmd", ev.cmd = g.steps[s].cmd /\ rspok /\ ~IsPhony(g, s))
           \* the directories of the outputs exist when the command is started (judged at the
           \* start: a concurrent command may remove them afterwards, which is not n2's doing)
           \cup Lbl({"C16"}, "outdir", ev.dirsok)
           \cup Lbl({"C17"}, "phase-order", p17)
           \cup Lbl({"CONF"}, "state", StOf(s) = "Running")
      cov == BumpIf(BumpIf(BumpIf(BumpIf(Bump(w.cov, "start"),
               "startAtJ", Cardinality(w.run) + 1 = w.inv.j),
               "startAtPool", depth > 0 /\ Cardinality(inPool) + 1 = depth),
               "startPar", w.run # {}),
               "valRun", \E d \in w.run \cup w.started : s \in ValProd(g, d) \ TransProducers(g, d))
  IN IF w.bad \/ s \notin StepIds(g) THEN [w EXCEPT !.viol = @ \cup Lbl({"CONF"}, "bad-graph", w.bad)]
     ELSE [w EXCEPT !.started = @ \cup {s}, !.run = @ \cup {s},
                    !.viol = @ \cup v, !.cov = cov]

DoFinish(ev) ==
  LET g == w.g
      s == ev.id
      ok == ev.out = "ok"
      file2 == ApplyWrites(w.file, ev.writes)
      gen == "gen" \in DOMAIN ev.notes
      manif2 == IF gen THEN (ev.notes.gen.name :> ev.notes.gen.g) @@ w.manif ELSE w.manif
      deps == DiscoveredFrom(g, s, ev.reported)
      v == Lbl({"CONF"}, "not-running", s \in w.run)
           \cup Lbl({"C16"}, "rspfile-disk",
                  ("rspdisk" \in DOMAIN ev /\ s \in StepIds(g) /\ g.steps[s].hasrsp)
                     => ev.rspdisk = g.steps[s].rspc)
      cov == BumpIf(BumpIf(BumpIf(BumpIf(Bump(w.cov, "finish"), "fail", ev.out = "fail"),
                "intr", ev.out = "intr"), "multiOrder", Len(ev.cands) > 1),
                "rmdir", "rmdir" \in DOMAIN ev.notes)
  IN IF w.bad \/ s \notin StepIds(g) THEN [w EXCEPT !.viol = @ \cup Lbl({"CONF"}, "bad-graph", w.bad)]
     ELSE [w EXCEPT !.run = @ \ {s},
                    !.finOK = IF ok THEN @ \cup {s} ELSE @,
                    !.finFail = IF ev.out = "fail" THEN @ \cup {s} ELSE @,
                    !.intr = IF ev.out = "intr" THEN @ \cup {s} ELSE @,
                    !.nOK = IF ok THEN @ + 1 ELSE @,
                    !.p1ok = @ \/ (ok /\ w.workNo = 1 /\ HasProducer(g, MFile) /\ s \in W1(g)),
                    !.file = file2, !.manif = manif2,
                    !.pend = IF ok THEN [s |-> s, deps |-> deps] ELSE NoPend,
                    !.fout = (s :> ev.out) @@ @,
                    !.lastFin = s, !.shown = ev.shown, !.shownMsvc = g.steps[s].msvc,
                    !.lastReads = ev.reads, !.lastHasDep = ev.hasdeps,
                    !.viol = @ \cup v, !.cov = cov]

\* n2 reports the completion to the progress display: output shown and deps it extracted.
DoPf(ev) ==
  LET v == Lbl(IF w.shownMsvc THEN {"C16", "C09"} ELSE {"C16"}, "shown-output",
               ev.id = w.lastFin => ev.out = w.shown)
           \cup Lbl({"C15", "C09"}, "reported-deps",
               (ev.id = w.lastFin /\ ev.t = "ok" /\ w.lastHasDep) => ev.disc = w.lastReads)
  IN IF w.bad THEN w ELSE [w EXCEPT !.viol = @ \cup v]

\* n2 logs a line through the progress display; `-d explain` lines are decoded by the harness
\* (lexically) into x = [kind, loc, file] or the listing of what was hashed.
DoPl(ev) ==
  LET x == ev.x
      shown == <<x.ins, x.disc, x.cmd, IF x.hasrsp THEN <<x.rsp>> ELSE <<>>, x.outs>>
  IN IF w.bad \/ x.kind = "" THEN w
     ELSE IF x.kind = "sig"
       THEN [w EXCEPT !.xpl = [@ EXCEPT !.sig = shown],
                      !.viol = @ \cup Lbl({"CONF"}, "explain-listing", w.xpl.kind = "changed" /\ ~x.bad)]
       ELSE [w EXCEPT !.xpl = [kind |-> x.kind, loc |-> x.loc, file |-> x.file, sig |-> <<>>],
                      !.viol = @ \cup Lbl({"CONF"}, "explain-unmatched", w.xpl.kind = "" /\ w.inv.explain)]

DoDbw(ev) ==
  LET g == w.g
      torn == "kept" \in DOMAIN ev /\ ev.kept < ev.len
      isBuild == ev.kind = "build" /\ "outs" \in DOMAIN ev
      cands == {s \in StepIds(g) : g.steps[s].outs = ev.outs}
      s == IF cands = {} THEN 0 ELSE CHOOSE x \in cands : TRUE
      expected == IF w.inv.adopt THEN CurRec(s).deps ELSE w.pend.deps
      \* The mirrored log holds what SHOULD have been recorded (the report of the run just
      \* finished; in restat mode the list that was loaded): a record with another list is flagged
      \* here (rec-deps) and its consequences show up later as steps the rule calls dirty (C02).
      deps2 == IF s # 0 /\ (w.inv.adopt \/ w.pend.s = s) THEN expected ELSE ev.deps
      rec == [outs |-> ev.outs, deps |-> deps2,
              sig |-> Sig(g, w.file, s, deps2), tok |-> ev.tok]
      v == Lbl({"C08"}, "rec-unknown-outs", s # 0)
           \cup (IF s = 0 THEN {} ELSE
                   Lbl({"C05", "C02"}, "rec-without-success", w.inv.adopt \/ w.pend.s = s)
                   \cup Lbl(IF g.steps[s].depfile # "" THEN {"C09", "C15"} ELSE {"C09"},
                          IF w.inv.adopt THEN "rec-deps-adopt" ELSE "rec-deps",
                          (w.inv.adopt \/ w.pend.s = s) => ev.deps = expected)
                   \cup Lbl({"C02"}, "rec-missing-file", MissingOf(g, w.file, s, ev.deps) = {})
                   \cup Lbl({"C13"}, "uncanonical-dep", Range(ev.deps) \cap Uncanonical(g) = {})
                   \* restat of a dirty step: the reason was given against the record being replaced
                   \cup Lbl({"CONF"}, "explain", (w.inv.adopt /\ w.inv.explain) => XplReasonOK(g, s, w.xpl)))
      cov == BumpIf(BumpIf(BumpIf(Bump(w.cov, "dbw"), "adoptRec", isBuild /\ w.inv.adopt),
                "discRec", isBuild /\ ev.deps # <<>>), "crash", "kept" \in DOMAIN ev)
      \* bytes of this write that belong to the log for good (a torn write contributes nothing;
      \* when n2 died before the 8-byte signature was complete the next invocation starts the log over)
      nb == LET lb == w.logBytes + (IF torn THEN 0 ELSE ev.len)
            IN IF "kept" \in DOMAIN ev /\ lb < 8 THEN 0 - w.logBytes ELSE lb - w.logBytes
  IN IF w.bad \/ ~isBuild THEN [w EXCEPT !.cov = cov, !.crashed = @ \/ ("kept" \in DOMAIN ev), !.logBytes = @ + nb]
     ELSE IF s = 0 THEN [w EXCEPT !.viol = @ \cup v, !.cov = cov, !.crashed = @ \/ ("kept" \in DOMAIN ev),
                                  !.logBytes = @ + nb]
     ELSE [w EXCEPT !.log = IF torn THEN @ ELSE Append(@, rec),
                    !.cur = IF torn THEN @ ELSE (s :> rec) @@ @,
                    !.pend = IF w.pend.s = s THEN NoPend ELSE @,
                    !.xpl = IF w.inv.adopt /\ w.inv.explain THEN [@ EXCEPT !.kind = "used"] ELSE @,
                    !.crashed = @ \/ ("kept" \in DOMAIN ev), !.logBytes = @ + nb,
                    !.viol = @ \cup v, !.cov = cov]

DoPu(ev) ==
  LET g == w.g
      c == ev.c
      wanted == {s \in StepIds(g) : StOf(s) # "Unknown"}
      df == c[5] + c[6]
      v == Lbl({"C19"}, "total", SumSeq6(c) = Cardinality(NonPhony(g, wanted)))
           \cup Lbl({"C19"}, "reported-total", ev.total = Cardinality(NonPhony(g, wanted)))
           \cup Lbl({"C19"}, "wanted-set", wanted = W(g) \/ (w.workNo = 1 /\ wanted = W1(g)))
           \cup Lbl({"C19"}, "per-state", /\ c[1] = CountSt(g, "Want") /\ c[2] = CountSt(g, "Ready")
                             /\ c[3] = CountSt(g, "Queued") /\ c[4] = CountSt(g, "Running")
                             /\ c[5] = CountSt(g, "Done") /\ c[6] = CountSt(g, "Failed"))
           \cup Lbl({"C19"}, "running", c[4] = Cardinality(w.run))
           \cup Lbl({"C19"}, "failed", c[6] = Cardinality(w.finFail))
           \cup Lbl({"C19"}, "monotone", df >= w.lastDF)
           \cup OwedLbl
           \cup Lbl({"CONF"}, "pu-counts", c = CountsSeq(w.iv.counts))
  IN IF w.bad THEN w
     ELSE [w EXCEPT !.lastDF = df, !.owed = {}, !.viol = @ \cup v, !.cov = Bump(@, "pu")]

ValidCycle(g, cyc) ==
  /\ Len(cyc) >= 2 /\ cyc[1] = cyc[Len(cyc)]
  /\ \A i \in 1..(Len(cyc) - 1) :
        \E p \in ProducersOf(g, cyc[i]) : cyc[i + 1] \in OrdIns(g, p)

DoEnd(ev) ==
  LET g == w.g
      ok == ev.exit = 0
      dead == ev.dead # ""
      loaded == w.workNo > 0 /\ ~w.bad
      Wn == W(g)
      np == NonPhony(g, Wn)
      unk == UnknownTargets(g)
      cyc == OrdCycleIn(g, Wn)
      missingSrc == {s \in np : MissingSources(g, w.file, s) # {}}
      badPool == {s \in np : PoolDepth(g, PoolOf(g, s)) < 0}
      legit == (IF cyc THEN {"cycle"} ELSE {})
               \cup (IF unk # {} THEN {"unknown_path"} ELSE {})
               \cup (IF missingSrc # {} THEN {"missing_input"} ELSE {})
               \cup (IF badPool # {} THEN {"unknown_pool"} ELSE {})
               \cup (IF w.fam = "nodeppath" THEN {"nodeppath"} ELSE {})
      K == w.inv.k
      budgetLeft == K = 0 \/ Cardinality(w.finFail) < K
      uptodate(s) == s \in w.finOK \/ ~DirtyNow(g, s)
      adoptMissing == w.inv.adopt /\ \E s \in np : MissingOf(g, w.file, s, CurRec(s).deps) # {}
      downstream(s) == s \in w.finFail \/ TransProducers(g, s) \cap w.finFail # {}
      wantedSet == {s \in StepIds(g) : StOf(s) # "Unknown"}
      logNames == UNION {Range(w.log[i].outs) \cup Range(w.log[i].deps) : i \in DOMAIN w.log}
      \* regeneration failed: nothing beyond the manifest's own closure is owed
      kgScope == IF w.workNo = 1 /\ HasProducer(g, MFile) /\ w.finFail \cap W1(g) # {}
                   THEN NonPhony(g, W1(g)) ELSE np
      allExist == \A s \in np : MissingOf(g, w.file, s, CurRec(s).deps) = {}
      \* (after a crash left a torn log, a panic is also "a log that a later invocation cannot load")
      v == Lbl(IF w.crashed THEN {"C06", "C12", "C07"} ELSE {"C06", "C12"}, "panic", ev.panic = "")
           \cup Lbl({"C07"}, "log-unreadable", ev.errk # "loaddb")
           \cup Lbl({"C05"}, "exit-zero-after-failure", (w.finFail # {} \/ w.intr # {} \/ ev.err # "") => ~ok)
           \cup (IF ~loaded THEN {} ELSE
                \* (C06's first clause as well: nothing failed, yet a wanted step was left behind)
                Lbl((IF w.workNo = 2 THEN {"C02", "C05", "C17"} ELSE {"C02", "C05"})
                       \cup (IF w.finFail = {} /\ w.intr = {} THEN {"C06"} ELSE {}),
                    "dirty-left", (ok /\ ~adoptMissing) => \A s \in np : uptodate(s))
                \cup Lbl({"C19"}, "summary", ok => /\ (ev.summary = "nowork") = (w.nOK = 0)
                                        /\ (ev.summary = "ran" => ev.n = w.nOK)
                                        /\ ev.summary # "none")
                \cup Lbl({"C18"}, IF unk \subseteq logNames THEN "unknown-accepted-logname" ELSE "unknown-accepted",
                    unk # {} => ~ok)
                \cup Lbl({"C18"}, "unknown-arg", ev.errk = "unknown_path" => CanonOf(g, ev.errarg) \in unk)
                \cup Lbl({"C13"}, "uncanonical-target",
                        ev.errk = "unknown_path" => ~KnownName(g, CanonOf(g, ev.errarg)))
                \cup Lbl(IF w.workNo = 2 THEN {"C18", "C17"} ELSE {"C18"}, "wanted-closure",
                      (ok /\ ev.err = "") => wantedSet = Wn)
                \cup Lbl({"C06"}, "cycle-accepted", cyc => ~ok)
                \cup Lbl({"C06"}, "cycle-text", ev.errk = "cycle" =>
                        /\ ValidCycle(g, ev.cyc)
                        /\ \A s \in w.started : ~OnOrdCycle(g, s))
                \cup Lbl({"C06"}, "spurious-error", ev.err # "" => ev.errk \in legit)
                \cup Lbl({"C09"}, "missing-dep-error", ev.errk = "missing_input" =>
                        \E s \in np : ev.errarg \in MissingSources(g, w.file, s))
                \cup Lbl({"C04"}, "pool-undeclared-ok", (badPool # {} /\ ok) => \A s \in badPool : ~DirtyNow(g, s) /\ s \notin w.started)
                \cup Lbl({"C04"}, "pool-arg", ev.errk = "unknown_pool" => \E s \in badPool : PoolOf(g, s) = ev.errarg)
                \* a name is only judged unknown against a manifest that is up to date: when the
                \* manifest has a producer, the error may come without a reload only if nothing in
                \* the manifest's own closure was out of date
                \cup Lbl({"C17", "C18"}, "unknown-before-regen",
                       (ev.errk = "unknown_path" /\ w.workNo = 1 /\ HasProducer(g, MFile))
                          => \A s \in NonPhony(g, W1(g)) : s \in w.finOK \/ ~DirtyNow(g, s))
                \cup Lbl({"C17"}, "no-reload", (w.p1ok /\ w.workNo = 1 /\ w.finFail = {} /\ w.intr = {}) => ev.err # "")
                \* ... and when n2 went on without reloading: what it then did is judged against the
                \* manifest text now on disk (C18's "(reloaded) manifest"): commands run for the
                \* requested targets lie in their closure there, names it does not have are rejected,
                \* names it has are not
                \cup (IF w.p1ok /\ w.workNo = 1 /\ w.finFail = {} /\ w.intr = {} /\ MFile \in DOMAIN w.manif
                      THEN LET gd == w.manif[MFile]
                               ran2 == NamesOf(g, w.started \ W1(g))
                           IN Lbl({"C18", "C17"}, "stale-graph",
                                  /\ ran2 \subseteq NamesOf(gd, Needed(gd, T2(gd)))
                                  /\ (UnknownTargets(gd) # {} => ~ok)
                                  /\ (ev.errk = "unknown_path" => CanonOf(gd, ev.errarg) \in UnknownTargets(gd)))
                      ELSE {})
                \cup Lbl({"C05", "C06"}, "keep-going",
                       (~ok /\ ev.err = "" /\ w.intr = {} /\ budgetLeft)
                          => \A s \in kgScope : downstream(s) \/ uptodate(s)))
      cov == BumpIf(BumpIf(BumpIf(BumpIf(BumpIf(BumpIf(BumpIf(BumpIf(BumpIf(w.cov,
                "endok", ok), "endfail", ~ok /\ ev.err = "" /\ ~dead), "enderr", ev.err # ""),
                "cycle", ev.errk = "cycle"), "unknownPath", ev.errk = "unknown_path"),
                "keptGoing", loaded /\ ~ok /\ ev.err = "" /\ w.finOK # {} /\ w.finFail # {}),
                "outsideClosure", loaded /\ ok /\ \E s \in StepIds(g) \ Wn : DirtyNow(g, s)),
                "cleanSkip", loaded /\ ok /\ \E s \in np : s \notin w.started),
                \* a step was left alone although a step producing one of its ordering inputs ran
                \* (output unchanged, or only an order-only edge): the interesting half of C03
                "skipAfterChange", loaded /\ ok /\ \E s \in np : s \notin w.started /\ OrdProd(g, s) \cap w.started # {})
      \* N2Work's exits: ExitDone needs pending = 0; a failed exit leaves nothing startable
      vexit == (IF loaded THEN OwedLbl ELSE {})
               \cup Lbl({"CONF"}, "exit-pending", (loaded /\ ok) => w.iv.pending = 0)
               \cup Lbl({"CONF"}, "exit-consistent", loaded => SchedConsistent(g, w.iv))
      \* C18: builddir (and -f) select where the log lives and nothing else: after an invocation
      \* that got as far as loading, the only build log is the one in the declared builddir
      bdir == IF "builddir" \in DOMAIN g THEN g.builddir ELSE ""
      vlog == Lbl({"C18"}, "log-location",
                  (loaded /\ "dbat" \in DOMAIN ev) =>
                     Range(ev.dbat) = {IF bdir = "" THEN ".n2_db" ELSE bdir \o "/.n2_db"})
      \* -C: n2 works in the named directory (and everything else is as if started there)
      \* the log on disk is exactly the writes that reached it completely: nothing of a torn write
      \* survives a later invocation (a sufficient condition for C07, hence only CONF)
      vsize == Lbl({"CONF"}, "log-size",
                   (loaded /\ "dbsize" \in DOMAIN ev /\ ev.dbsize >= 0 /\ ~w.bad) => ev.dbsize = w.logBytes)
      vcwd == Lbl({"C18"}, "chdir", (loaded /\ "cwd" \in DOMAIN ev) => ev.cwd = w.inv.cdir)
      vdead == Lbl({"C06"}, "hang", ev.dead \notin {"hang", "livelock"})
  IN [w EXCEPT !.viol = IF dead THEN @ \cup vdead ELSE @ \cup v \cup vexit \cup vlog \cup vcwd \cup vsize,
               !.cov = IF dead THEN @ ELSE cov,
               !.inInv = FALSE, !.lastOk = (~dead /\ ok),
               !.lastSum = <<ev.summary, IF ev.summary = "ran" THEN ev.n ELSE 0>>,
               !.prevOK = ~dead /\ ok /\ loaded /\ ~w.inv.adopt /\ allExist /\ w.workNo = 1,
               !.prevTargets = w.inv.targets, !.prevFile = w.inv.file,
               !.changed = FALSE]

\* After an invocation of a history generated from N2Hist: what the history model predicted
\* for it (TLC computed the prediction while generating the behaviour).  n2 ran a command the
\* model's rule calls clean: C03; it did not run one the model says must run: C02.
DoExpect(ev) ==
  LET g == w.g
      ranNames == w.p1names \cup {g.steps[s].outs[1] : s \in w.started}
      recNow == {s \in StepIds(g) : CurRec(s).tok # ""}
      v == Lbl({"C03"}, "model-ran-extra", ranNames \subseteq Range(ev.ran))
           \cup Lbl({"C02"}, "model-ran-missing", Range(ev.ran) \subseteq ranNames)
           \* (a requested name the new manifest does not have is C18's business, decided at `end`)
           \cup Lbl({"C05"}, "model-exit", ev.unknown = <<>> => ev.ok = w.lastOk)
           \cup Lbl({"C09"}, "model-deps", \A s \in StepIds(g) :
                    (s \in DOMAIN ev.deps /\ s \in recNow) => CurRec(s).deps = ev.deps[s])
           \cup Lbl({"C02", "C08"}, "model-recorded", recNow = Range(ev.recorded))
           \* the summary line: the number of commands the model says completed successfully
           \cup Lbl({"C19"}, "model-summary",
                  (ev.nok >= 0 /\ ev.ok /\ w.lastOk /\ ev.unknown = <<>>) =>
                     IF ev.nok = 0 THEN w.lastSum = <<"nowork", 0>> ELSE w.lastSum = <<"ran", ev.nok>>)
  IN IF w.bad \/ w.workNo = 0 THEN w
     ELSE [w EXCEPT !.viol = @ \cup v, !.cov = Bump(@, "expect")]

DoStall(ev) ==
  [w EXCEPT !.viol = @ \cup Lbl({"C06", "C01", "C09"}, "stall", FALSE), !.cov = Bump(@, "stall")]

DoKill(ev) ==
  [w EXCEPT !.file = ApplyWrites(@, ev.writes), !.cov = Bump(@, "kill")]

---------------------------------------------------------------------------
Ev == Rec[l]
At(e) == l <= Len(Rec) /\ Rec[l].e = e /\ l' = l + 1

EvScn      == At("scn")      /\ w' = DoScn(Ev)
EvManifest == At("manifest") /\ w' = DoManifest(Ev)
EvFs       == At("fs")       /\ w' = DoFs(Ev)
EvInvoke   == At("invoke")   /\ w' = DoInvoke(Ev)
EvWork     == At("work")     /\ w' = DoWork(Ev)
EvSet      == At("set")      /\ w' = DoSet(Ev)
EvStart    == At("start")    /\ w' = DoStart(Ev)
EvFinish   == At("finish")   /\ w' = DoFinish(Ev)
EvPf       == At("pf")       /\ w' = DoPf(Ev)
EvDbw      == At("dbw")      /\ w' = DoDbw(Ev)
EvPu       == At("pu")       /\ w' = DoPu(Ev)
EvPl       == At("pl")       /\ w' = DoPl(Ev)
EvEnd      == At("end")      /\ w' = DoEnd(Ev)
EvStall    == At("stall")    /\ w' = DoStall(Ev)
EvKill     == At("kill")     /\ w' = DoKill(Ev)
EvExpect   == At("expect")   /\ w' = DoExpect(Ev)
\* Events that carry no obligation of their own.
EvOther    == /\ l <= Len(Rec)
              /\ Rec[l].e \in {"done", "ps", "note"}
              /\ l' = l + 1 /\ w' = w

Next == \/ EvScn \/ EvManifest \/ EvFs \/ EvInvoke \/ EvWork \/ EvSet \/ EvStart
        \/ EvFinish \/ EvPf \/ EvDbw \/ EvPu \/ EvPl \/ EvEnd \/ EvStall \/ EvKill \/ EvExpect \/ EvOther

Spec == Init /\ [][Next]_vars

\* Printed once, at the last trace position (a POSTCONDITION cannot read variables).
Verdict ==
  l = Len(Rec) + 1 =>
    PrintT(<<"VERDICT", ToJson([events |-> Len(Rec), viol |-> w.viol, cov |-> w.cov])>>)

\* The whole trace was consumed (guards against a malformed event ending validation early).
Consumed == TLCGet("stats").diameter - 1 = Len(Rec)
=============================================================================
