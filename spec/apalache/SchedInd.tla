------------------------------ MODULE SchedInd ------------------------------
(***************************************************************************)
(* Inductive check with Apalache of the bookkeeping lemma that N2Work's    *)
(* invariants Bookkeeping / C19 and the trace specification's counter      *)
(* guards rest on: BuildStates::set, as specified by SchedCore!CoreSet     *)
(* (the very operator N2Sched!SchedSet is defined by), preserves            *)
(* CoreConsistent for EVERY set of at most MaxSteps steps with ANY phony   *)
(* subset, EVERY consistent bookkeeping state (reachable or not) and EVERY *)
(* set of simultaneous legal transitions.  TLC establishes the same only   *)
(* for the states reachable from N2Work's Init with N = 3 (4 in the        *)
(* diamond family).                                                        *)
(*   apalache-mc check --init=IndInit --next=Next --inv=IndInv --length=1  *)
(* checks  IndInit /\ Next => IndInv'  (the inductive step; the base case  *)
(* is SchedInit, all Unknown, all counters 0, trivially consistent and     *)
(* checked by --length=0 with Init).                                       *)
(***************************************************************************)
EXTENDS SchedCore

CONSTANT
  \* @type: Int;
  MaxSteps

VARIABLES
  \* @type: Set(Int);
  steps,
  \* @type: Set(Int);
  phony,
  \* @type: { st: Int -> Str, ready: Set(Int), pending: Int, counts: Str -> Int };
  iv

\* @type: Set(<<Str, Str>>);
Legal == { <<"Unknown", "Want">>, <<"Unknown", "Ready">>, <<"Want", "Ready">>, <<"Want", "Want">>,
           <<"Ready", "Done">>, <<"Ready", "Queued">>, <<"Queued", "Running">>,
           <<"Running", "Done">>, <<"Running", "Failed">> }

\* any bookkeeping state whatsoever over any set of steps within 1..MaxSteps that is consistent
IndInit ==
  /\ steps \in SUBSET (1..MaxSteps)
  /\ phony \in SUBSET (1..MaxSteps)
  /\ \E st0 \in [1..MaxSteps -> CoreStates], c0 \in [CoreCounted -> 0..MaxSteps],
        p0 \in 0..MaxSteps, r0 \in SUBSET (1..MaxSteps) :
       iv = [st |-> [s \in steps |-> st0[s]], ready |-> r0, pending |-> p0, counts |-> c0]
  /\ CoreConsistent(steps, phony, iv)

\* the base case: nothing wanted yet
Init ==
  /\ steps \in SUBSET (1..MaxSteps)
  /\ phony \in SUBSET (1..MaxSteps)
  /\ iv = [st |-> [s \in steps |-> "Unknown"], ready |-> {}, pending |-> 0,
           counts |-> [x \in CoreCounted |-> 0]]

Next ==
  \E D \in SUBSET steps :
    \E nw \in [1..MaxSteps -> CoreStates] :
      /\ \A s \in D : <<iv.st[s], nw[s]>> \in Legal
      /\ iv' = CoreSet(phony, iv, [s \in D |-> nw[s]])
      /\ UNCHANGED <<steps, phony>>

IndInv == CoreConsistent(steps, phony, iv)
=============================================================================
