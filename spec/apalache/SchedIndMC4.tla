---- MODULE SchedIndMC4 ----
EXTENDS SchedInd
\* @type: () => Bool;
CInit == MaxSteps = 4
====
