---- MODULE SchedIndMC7 ----
EXTENDS SchedInd
\* @type: () => Bool;
CInit == MaxSteps = 7
====
