#!/bin/bash
# Confirms seeded changes in scratch worktrees outside /repo and /verif: the patch applies to HEAD,
# the tree builds, the 71 baseline tests pass with it, the demonstration passes on the clean tree
# and fails on the changed tree.  Writes <seed>/confirm.json.  usage: confirm_seeds.sh <seed-dir>...
set -u
W=/tmp/confirm; C=/tmp/confirm-clean
cd /repo || exit 2
[ -d $W ] || git worktree add -q --detach $W HEAD
[ -d $C ] || git worktree add -q --detach $C HEAD
git -C $W checkout -q --detach HEAD; git -C $C checkout -q --detach HEAD
(cd $C && cargo build --offline -j 6 >/dev/null 2>&1)
for d in "$@"; do
  name=$(basename $d)
  [ -f $d/demo.sh ] || { echo "$name: no demo.sh"; continue; }
  git -C $W checkout -q -- . ; git -C $W clean -fdq -e target
  if ! git -C $W apply $d/patch.diff 2>/dev/null; then echo "$name: patch does not apply"; continue; fi
  b=$( (cd $W && cargo build --offline -j 6 2>&1) | grep -c "^error" )
  t=$( (cd $W && cargo test --workspace --no-fail-fast --offline -j 6 2>&1) | grep "test result" | awk '{s+=$4; f+=$6} END {print s" passed "f" failed"}')
  bash $d/demo.sh $C/target/debug/n2 >/tmp/confirm.clean.out 2>&1; rc_clean=$?
  bash $d/demo.sh $W/target/debug/n2 >/tmp/confirm.mut.out 2>&1; rc_mut=$?
  echo "$name: build_errors=$b tests=[$t] demo_clean=$rc_clean demo_changed=$rc_mut"
  printf '{"applies": true, "build_errors": %s, "tests": "%s", "demo_on_clean_rc": %s, "demo_on_changed_rc": %s, "head": "%s"}\n' "$b" "$t" "$rc_clean" "$rc_mut" "$(git -C /repo rev-parse --short HEAD)" > $d/confirm.json
  git -C $W checkout -q -- .
done
