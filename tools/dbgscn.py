#!/usr/bin/env python3
"""Debug aid: generate the scenarios of an engine, run the one(s) whose id matches, validate and
print the labels with the events around them.
usage: dbgscn.py <sched|hist|crash|model> <scenario-id-prefix> [--tier quick] [--seed 1] [--tag explain] [--ctx 12]"""
import json, os, shutil, sys
sys.path.insert(0, os.path.join(os.path.dirname(os.path.dirname(os.path.realpath(__file__))), "lib"))
import driver as D

def opt(n, d):
    return sys.argv[sys.argv.index(n) + 1] if n in sys.argv else d

eng, pref = sys.argv[1], sys.argv[2]
tier = opt("--tier", "quick"); seed = int(opt("--seed", "1")); tag = opt("--tag", None); ctx = int(opt("--ctx", "12"))
mod = __import__("gen_" + eng)
D.build_harness()          # (the crash generator runs the harness itself while generating)
scns = [s for s in mod.generate(seed, tier) if s["id"].startswith(pref)][:int(opt("--max", "1"))]
if not scns:
    sys.exit("no scenario matches")
wdir = os.path.join(D.WORK, "dbg-%d" % os.getpid())
shutil.rmtree(wdir, ignore_errors=True); os.makedirs(wdir)
sp = os.path.join(wdir, "s.ndjson")
with open(sp, "w") as f:
    for s in scns:
        f.write(json.dumps(s) + "\n")
res = D.run_harness_shards(sp, os.path.join(wdir, "t"), 1, int(opt("--cap", "4")))
tr = res[0]["trace"]
v = D.validate_trace(tr)
lines = open(tr).read().splitlines()
print("events:", len(lines), "labels:", len(v["viol"]))
from collections import Counter
print("by label:", dict(Counter((p, t) for (p, t, l) in v["viol"])))
shown = 0
for (p, t, l) in sorted(v["viol"], key=lambda x: x[2]):
    if tag and t != tag:
        continue
    print("==== %s %s at event %d" % (p, t, l))
    for i in range(max(0, l - 1 - ctx), min(len(lines), l + 2)):
        print(("-> " if i == l - 1 else "   ") + lines[i][:600])
    shown += 1
    if shown >= int(opt("--show", "2")):
        break
if "--keep" in sys.argv:
    print("trace kept at", tr)
else:
    shutil.rmtree(wdir, ignore_errors=True)
