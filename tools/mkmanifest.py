#!/usr/bin/env python3
"""Regenerates /verif/MANIFEST.json from the property table below (kept in one place so the
manifest stays valid while checks are added)."""
import json, subprocess
props = [json.loads(l)["id"] for l in open("/verif/properties.jsonl")]

TRACE_NOTE = ("Trusted: TLC; the cfg(n2_verif) hooks emit events at the linearization points (state change, "
  "command start/finish, log write, progress report, exit) and nowhere else; commands are scripted "
  "(process::run_command diverted) and their file effects performed by the harness with logical-clock mtimes; "
  "bounds: all graphs over 3 steps in the model, random graphs up to 9 steps and bounded completion-order "
  "enumeration in the traces.")

CHECKS = {
 "C01": ("model_checking", "TLC checks ordering/no-restart invariants of the scheduler specification (N2Work) over every interleaving of all 3-step graphs; every start event recorded from the real scheduler under enumerated and random completion orders is validated by the trace specification (TraceObs) against the declared graph.", "5 C01", "TLA+ spec N2Work model-checked with TLC + TLC trace validation (TraceObs) of in-process executions under scripted completion orders"),
 "C04": ("model_checking", "TLC checks -j and pool-depth invariants and the code's pool counters on the specification for all pool assignments/depths/-j over 3-step graphs; in recorded executions the number of running commands is recomputed from start/finish events at every start and compared with -j and the declared depth.", "5 C04", "TLA+ spec N2Work model-checked with TLC + TLC trace validation (TraceObs) with pool-heavy scenarios"),
 "C05": ("model_checking", "TLC checks containment, budget, exit-status and keep-going invariants for every failing subset, -k and completion order on the specification; recorded executions with failing/interrupted commands are validated event by event (no start below a failure, no record after failure, budget, exit status, keep-going completeness).", "5 C05", "TLA+ spec N2Work model-checked with TLC + TLC trace validation (TraceObs) with fault outcomes per command"),
 "C06": ("model_checking", "TLC checks absence of the internal-error state, correct cycle/pool errors and termination (liveness under weak fairness) on the specification incl. cyclic and cyclic-through-validation graphs and phase-1 reuse; recorded executions must end without panic/hang/livelock, with a valid cycle diagnostic exactly when the ordering closure is cyclic, and validation targets must not hold a step back (adversarial 'hold' schedules).", "5 C06", "TLA+ spec N2Work model-checked with TLC (safety + liveness) + TLC trace validation (TraceObs) incl. hang/livelock watchdog"),
 "C18": ("model_checking", "TLC checks started ⊆ Needed(targets) and wanted = Needed(targets) on the specification for all target subsets; recorded executions: every start is inside the closure computed from the declared graph, the set of steps n2 considered equals the closure, unknown names are rejected before anything runs.", "5 C18", "TLA+ spec N2Work model-checked with TLC + TLC trace validation (TraceObs) over target subsets/defaults"),
 "C19": ("model_checking", "TLC checks counts = cardinalities, pending and monotonicity on the specification; every progress update recorded from the real code is compared with the state of the mirrored steps and with the commands actually running (from start/finish events), the final summary with the number of successful commands.", "5 C19", "TLA+ spec N2Work model-checked with TLC + TLC trace validation (TraceObs) of every Progress::update"),
}
import sys
sys.path.insert(0, "/verif/tools")
try:
    from manifest_extra import EXTRA, NOT_APPLICABLE
except ImportError:
    EXTRA, NOT_APPLICABLE = {}, {}
CHECKS.update(EXTRA)

def commits():
    out = subprocess.run(["git", "-C", "/repo", "log", "--format=%H %s"], capture_output=True, text=True).stdout
    return [l.split()[0] for l in out.splitlines() if " verif:" in l]

m = {
 "version": 1,
 "setup_cmd": "./check setup",
 "hooks": {"guard": "n2_verif",
           "enable": "RUSTFLAGS --cfg n2_verif (set in /verif/harness/.cargo/config.toml; the harness crate depends on /repo by path)",
           "baseline_off_cmd": "cd /repo && cargo test --workspace --no-fail-fast --offline",
           "source_commits": commits(), "add_only": True},
 "engines": [
   {"name": "mc", "path": "/verif/spec", "serves_properties": sorted(CHECKS), "kind_free_text": "TLC model checking of the TLA+ specification modules (MC_*.cfg)"},
   {"name": "trace", "path": "/verif/harness", "serves_properties": sorted(CHECKS), "kind_free_text": "n2 linked as a library with cfg(n2_verif) hooks, scripted commands, NDJSON event traces validated by TLC against spec/TraceObs.tla"},
 ],
 "checks": [],
 "notes": "See DESIGN.md. ./check <id> --tier quick|thorough; ./check replay <file>; ./check conformance.",
 "not_applicable": [],
}
for p in props:
    if p in CHECKS:
        level, text, ref, tech = CHECKS[p][:4]
        note = CHECKS[p][4] if len(CHECKS[p]) > 4 else TRACE_NOTE
        m["checks"].append({"property_id": p, "quick_cmd": "./check %s --tier quick" % p,
            "thorough_cmd": "./check %s --tier thorough" % p, "evidence_file": "/verif/evidence/%s.json" % p,
            "replay_cmd_template": "./check replay {path}", "engine": "mc+trace",
            "level_claimed": {"category": level, "text": text, "design_ref": ref},
            "level_note": note, "technique": tech})
    else:
        m["not_applicable"].append({"property_id": p, "reason": NOT_APPLICABLE.get(p, "check not built yet (work in progress, see DESIGN.md section 11); no claim is made")})
json.dump(m, open("/verif/MANIFEST.json", "w"), indent=1)
print(len(m["checks"]), "checks,", len(m["not_applicable"]), "not applicable")
