#!/usr/bin/env python3
"""Regenerates /verif/MANIFEST.json from the property table below (kept in one place so the
manifest stays valid while checks are added)."""
import json, subprocess
props = [json.loads(l)["id"] for l in open("/verif/properties.jsonl")]

TRACE_NOTE = ("Trusted: TLC; the cfg(n2_verif) hooks emit events at the linearization points (state change, "
  "command start/finish, log write, progress report, exit) and nowhere else; commands are scripted "
  "(process::run_command diverted) and their file effects performed by the harness with logical-clock mtimes; "
  "bounds: all graphs over 3 steps in the model, random graphs up to 9 steps and bounded completion-order "
  "enumeration in the traces.")

CHECKS = {
 "C01": ("model_checking", "TLC checks ordering/no-restart invariants of the scheduler specification (N2Work) over every interleaving of all 3-step graphs; every start event recorded from the real scheduler under enumerated and random completion orders is validated by the trace specification (TraceObs) against the declared graph.", "5 C01", "TLA+ spec N2Work model-checked with TLC + TLC trace validation (TraceObs) of in-process executions under scripted completion orders"),
 "C04": ("model_checking", "TLC checks -j and pool-depth invariants and the code's pool counters on the specification for all pool assignments/depths/-j over 3-step graphs; in recorded executions the number of running commands is recomputed from start/finish events at every start and compared with -j and the declared depth (families: all-dirty pools, pools with up-to-date members settled mid-invocation, pools whose declaration changes across a manifest regeneration). The arithmetic of BuildStates::set that the counters rest on (SchedCore, shared by N2Sched/N2Work/TraceObs) is additionally checked inductively with Apalache for every consistent state of up to 4 (quick) / 7 (thorough) steps.", "5 C04, 12.13", "TLA+ spec N2Work model-checked with TLC + Apalache inductive check of the bookkeeping lemma (SchedCore) + TLC trace validation (TraceObs) with pool-heavy scenarios"),
 "C05": ("model_checking", "TLC checks containment, budget, exit-status and keep-going invariants for every failing subset, -k and completion order on the specification; recorded executions with failing/interrupted commands are validated event by event (no start below a failure, no record after failure, budget, exit status, keep-going completeness).", "5 C05", "TLA+ spec N2Work model-checked with TLC + TLC trace validation (TraceObs) with fault outcomes per command"),
 "C06": ("model_checking", "TLC checks absence of the internal-error state, correct cycle/pool errors and termination (liveness under weak fairness) on the specification incl. cyclic and cyclic-through-validation graphs and phase-1 reuse; recorded executions must end without panic/hang/livelock, with a valid cycle diagnostic exactly when the ordering closure is cyclic, and validation targets must not hold a step back (adversarial 'hold' schedules).", "5 C06", "TLA+ spec N2Work model-checked with TLC (safety + liveness) + TLC trace validation (TraceObs) incl. hang/livelock watchdog"),
 "C18": ("model_checking", "TLC checks started ⊆ Needed(targets) and wanted = Needed(targets) on the specification for all target subsets; recorded executions: every start is inside the closure computed from the declared graph, the set of steps n2 considered equals the closure, unknown names are rejected before anything runs; histories declare builddir and keep the project in a subdirectory reached with -C: the only build log must be the one in the declared builddir and n2 must work in the requested directory; when a regeneration is not followed by a reload, what n2 then does is judged against the manifest text on disk.", "5 C18, 12.13", "TLA+ spec N2Work model-checked with TLC + TLC trace validation (TraceObs) over target subsets/defaults, builddir, -C, -f"),
 "C19": ("model_checking", "TLC checks counts = cardinalities, pending and monotonicity on the specification; every progress update recorded from the real code is compared with the state of the mirrored steps and with the commands actually running (from start/finish events), the final summary with the number of successful commands (also against the count the history model N2Hist predicts). The bookkeeping lemma (counts, pending, ready queue are functions of the state map; SchedCore) is checked inductively with Apalache for every consistent state of up to 4 (quick) / 7 (thorough) steps.", "5 C19, 12.13", "TLA+ spec N2Work model-checked with TLC + Apalache inductive check of the bookkeeping lemma (SchedCore) + TLC trace validation (TraceObs) of every Progress::update"),
 "C02": ("model_checking", "TLC checks clean-build equivalence (file contents as provenance terms, compared with what a from-scratch build would produce) for the manifest rule over all histories of <= 5-6 operations (edit/touch/delete sources, outputs, header; change includes; switch manifest versions; target subsets; failing commands; restat) on three project variants, and shows that dropping any signature component breaks it; the same rule (same TLA+ operators) is evaluated on the mirrored store of recorded histories of the real n2: a wanted step left unbuilt while the rule calls it dirty, a missing or spurious log record, is a violation.", "5 C02", "TLA+ spec N2Hist/N2Store model-checked with TLC + TLC trace validation (TraceObs store mirror) of multi-invocation histories"),
 "C03": ("model_checking", "TLC checks on N2Hist that after a successful invocation the same request would run nothing (also after an identity-preserving manifest rewrite and after restat); on recorded histories every start must be of a step the rule calls dirty on the mirrored store, and an immediately repeated invocation must start nothing.", "5 C03", "TLA+ spec N2Hist/N2Store model-checked with TLC + TLC trace validation (TraceObs) of multi-invocation histories"),
 "C08": ("model_checking", "The log is mirrored record by record from what n2 wrote (outputs, deps, hash token); at every load the state n2 reports per step must equal the latest applicable record of the mirror under the current manifest; histories reorder/rename/re-style/include-split the manifest and move or drop outputs. TLC checks attribution (C08) and no-rerun across reordered versions on N2Hist.", "5 C08", "TLA+ spec N2Store/N2Hist model-checked with TLC + TLC trace validation (TraceObs log mirror) across manifest rewrites"),
 "C09": ("model_checking", "Recorded histories in which reported dependency sets grow, shrink, overlap declared and order-only inputs, disappear, and are spelled differently: the list n2 records must equal the canonical report (first occurrences minus declared inputs), what it loads must equal what it recorded, a missing reported file must dirty the step without an error, /showIncludes lines must be filtered from the shown output. TLC checks the list semantics on N2Hist.", "5 C09", "TLA+ spec N2Hist model-checked with TLC + TLC trace validation (TraceObs) with scripted depfile / showIncludes reports"),
 "C17": ("model_checking", "Recorded histories with a generator step producing the manifest (versions add/remove/rewire steps, -f alternative name, failing regeneration, targets that exist in one version only): only the manifest's closure may start before the reload, a reload must follow a successful regeneration, the graph n2 reports after the reload must be the one of the text now on disk, and failure of the regeneration stops everything. TLC checks reuse of phase-1 results on N2Work (family pre).", "5 C17", "TLC trace validation (TraceObs) of regeneration histories + TLA+ spec N2Work (family pre) model-checked with TLC"),
}
import sys
sys.path.insert(0, "/verif/tools")
try:
    from manifest_extra import EXTRA, NOT_APPLICABLE
except ImportError:
    EXTRA, NOT_APPLICABLE = {}, {}
CHECKS.update(EXTRA)

def commits():
    out = subprocess.run(["git", "-C", "/repo", "log", "--format=%H %s"], capture_output=True, text=True).stdout
    return [l.split()[0] for l in out.splitlines() if " verif:" in l]

m = {
 "version": 1,
 "setup_cmd": "./check setup",
 "hooks": {"guard": "n2_verif",
           "enable": "RUSTFLAGS --cfg n2_verif (set in /verif/harness/.cargo/config.toml; the harness crate depends on /repo by path)",
           "baseline_off_cmd": "cd /repo && cargo test --workspace --no-fail-fast --offline",
           "source_commits": commits(), "add_only": True},
 "engines": [
   {"name": "mc", "path": "/verif/spec", "serves_properties": sorted(CHECKS), "kind_free_text": "TLC model checking of the TLA+ specification modules (MC_*.cfg)"},
   {"name": "trace", "path": "/verif/harness", "serves_properties": sorted(CHECKS), "kind_free_text": "n2 linked as a library with cfg(n2_verif) hooks, scripted commands, NDJSON event traces validated by TLC against spec/TraceObs.tla"},
 ],
 "checks": [],
 "notes": "See DESIGN.md. ./check <id> --tier quick|thorough; ./check replay <file>; ./check conformance.",
 "not_applicable": [],
}
for p in props:
    if p in CHECKS:
        level, text, ref, tech = CHECKS[p][:4]
        note = CHECKS[p][4] if len(CHECKS[p]) > 4 else TRACE_NOTE
        m["checks"].append({"property_id": p, "quick_cmd": "./check %s --tier quick" % p,
            "thorough_cmd": "./check %s --tier thorough" % p, "evidence_file": "/verif/evidence/%s.json" % p,
            "replay_cmd_template": "./check replay {path}", "engine": "mc+trace",
            "level_claimed": {"category": level, "text": text, "design_ref": ref},
            "level_note": note, "technique": tech})
    else:
        m["not_applicable"].append({"property_id": p, "reason": NOT_APPLICABLE.get(p, "check not built yet (work in progress, see DESIGN.md section 11); no claim is made")})
json.dump(m, open("/verif/MANIFEST.json", "w"), indent=1)
print(len(m["checks"]), "checks,", len(m["not_applicable"]), "not applicable")
