#!/usr/bin/env python3
"""Writes seeded/<id>/meta.json from notes.md (what breaks, what it needs to manifest),
confirm.json (what was run to confirm the change) and detect.json (which checks caught it,
written by tools/seedmatrix.py).  usage: mkmeta.py [seed-id ...]"""
import json, os, re, sys

ROOT = "/verif/seeded"
FINDINGS = {f["id"]: f for f in json.load(open("/verif/known_findings.json"))["findings"]}

def sections(text):
    out = {}; cur = "title"; buf = []
    for line in text.splitlines():
        if line.startswith("#"):
            out[cur] = "\n".join(buf).strip(); cur = line.lstrip("# ").strip(); buf = []
        else:
            buf.append(line)
    out[cur] = "\n".join(buf).strip()
    return out

def squash(t, n=900):
    t = re.sub(r"\s+", " ", t).strip()
    return t if len(t) <= n else t[:n - 3] + "..."

def main(ids):
    for d in ids:
        p = os.path.join(ROOT, d)
        meta = {"id": d}
        conf = json.load(open(p + "/confirm.json")) if os.path.exists(p + "/confirm.json") else {}
        if d.startswith("revert-"):
            fid = d[len("revert-"):]
            f = FINDINGS.get(fid, {})
            meta["property"] = f.get("property", "")
            meta["origin"] = "reverse of the repair of finding %s (fix commit %s): the defect as it was on the pinned tree" % (fid, f.get("commit", "?"))
            meta["breaks"] = f.get("what", "")
            meta["needs"] = "see DESIGN.md 12.4, row %s" % fid
        else:
            meta["property"] = d.split("-")[0]
            meta["origin"] = "written by a fresh sub-agent given only the property text and a scratch worktree"
            notes = open(p + "/notes.md").read() if os.path.exists(p + "/notes.md") else ""
            sec = sections(notes)
            title = notes.splitlines()[0].lstrip("# ").strip() if notes else ""
            meta["title"] = title
            for key, pats in (("breaks", ("breaks", "broken", "part of")), ("mechanism", ("mechanism", "change")),
                              ("needs", ("needed", "needs", "manifest"))):
                for h, body in sec.items():
                    if any(x in h.lower() for x in pats) and body:
                        meta[key] = squash(body); break
        meta["confirmed"] = {
            "how": "tools/confirm_seeds.sh: scratch worktree of /repo HEAD outside /repo and /verif; patch applied; cargo build; "
                   "cargo test --workspace --no-fail-fast --offline (the 71 baseline tests); demo.sh on the unchanged build and on the changed build",
            "at_repo_head": conf.get("head"), "build_errors": conf.get("build_errors"),
            "baseline_tests": conf.get("tests"),
            "demo_rc_unchanged": conf.get("demo_on_clean_rc"), "demo_rc_changed": conf.get("demo_on_changed_rc"),
        }
        if os.path.exists(p + "/detect.json"):
            meta["checks"] = json.load(open(p + "/detect.json"))
        if os.path.exists(p + "/meta.json"):
            oldm = json.load(open(p + "/meta.json"))
            for k in ("status", "rejected_because", "notes"):
                if k in oldm:
                    meta[k] = oldm[k]
        json.dump(meta, open(p + "/meta.json", "w"), indent=1)
        print(d, "ok")

if __name__ == "__main__":
    ids = sys.argv[1:] or sorted(x for x in os.listdir(ROOT) if os.path.isdir(os.path.join(ROOT, x)))
    main(ids)
