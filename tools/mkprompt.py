#!/usr/bin/env python3
"""Prints the prompt for a seeding sub-agent: property text + scratch worktree only.
usage: mkprompt.py <seed-id, e.g. C07-B>"""
import json, sys, os
sid = sys.argv[1]; pid = sid.split("-")[0]
props = {json.loads(l)["id"]: json.loads(l) for l in open("/verif/properties.jsonl")}
avoid = []
for d in sorted(os.listdir("/verif/seeded")):
    if d.startswith(pid + "-"):
        m = "/verif/seeded/%s/meta.json" % d
        if os.path.exists(m):
            t = json.load(open(m)).get("title", "")
            if t: avoid.append(t.split("—")[-1].strip())
t = open("/tmp/seedprompt/common.txt").read() if os.path.exists("/tmp/seedprompt/common.txt") else open("/verif/tools/seedprompt.txt").read()
print(t.replace("@WT@", "/tmp/seedwt/" + sid).replace("@OUT@", "/tmp/seedout/" + sid).replace("@PID@", pid)
       .replace("@TEXT@", props[pid]["statement"]).replace("@AVOID@", "; ".join(avoid) or "(none yet)"))
