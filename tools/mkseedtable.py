#!/usr/bin/env python3
"""Rewrites the table of DESIGN.md 12.12 (between the SEEDTABLE markers) from seeded/*/meta.json."""
import json, os, re
ROOT = "/verif/seeded"
FIRST = json.load(open("/verif/tools/first_try.json")) if os.path.exists("/verif/tools/first_try.json") else {}
rows = []
for d in sorted(os.listdir(ROOT)):
    mp = os.path.join(ROOT, d, "meta.json")
    if not os.path.exists(mp):
        continue
    m = json.load(open(mp))
    title = m.get("title") or m.get("breaks", "")
    if "—" in title:
        title = title.split("—", 1)[1].strip()
    title = re.sub(r"^fixed: property=\S+ \S+ ", "", title)
    title = title.replace("|", "/")
    if len(title) > 150:
        title = title[:147] + "..."
    res = m.get("checks", {}).get("results", {})
    if not res:
        rows.append("| %s | %s | %s | not yet tried | | |" % (d, title, m.get("property", "")))
    for p, r in sorted(res.items()):
        verdict = "caught" if r["caught"] else ("tool error" if r["rc"] == 2 else "**missed**")
        if m.get("status") == "rejected":
            verdict += " (change rejected as a seed, see meta.json)"
        guards = ", ".join(g.rsplit("x", 1)[0] for g in r["guards"])
        rows.append("| %s | %s | %s (%s) | %s | %s | %s |" % (d, title, p, r.get("tier", "quick"), verdict, guards, FIRST.get(d, "")))
table = "| change | what it does | check | verdict | guards | history |\n|---|---|---|---|---|---|\n" + "\n".join(rows)
p = "/verif/DESIGN.md"
s = open(p).read()
if "<!-- SEEDTABLE BEGIN -->" in s:
    s = re.sub(r"<!-- SEEDTABLE BEGIN -->.*<!-- SEEDTABLE END -->",
               lambda _: "<!-- SEEDTABLE BEGIN -->\n" + table + "\n<!-- SEEDTABLE END -->", s, flags=re.S)
else:
    s = s.replace("SEEDTABLE\n", "<!-- SEEDTABLE BEGIN -->\n" + table + "\n<!-- SEEDTABLE END -->\n")
open(p, "w").write(s)
print(len(rows), "rows")
