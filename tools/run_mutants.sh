#!/bin/bash
# usage: run_mutants.sh <log> <id:props> ...   e.g. C02/A:C02,C03
log="$1"; shift
for spec in "$@"; do
  m="${spec%%:*}"; props="${spec##*:}"
  p=/verif/seeded/${m%%/*}-${m##*/}/patch.diff
  echo "#### $m ($(date +%H:%M:%S))" >> "$log"
  /verif/tools/try_mutant.sh "$p" ${props//,/ } >> "$log" 2>&1
done
echo "#### done $(date +%H:%M:%S)" >> "$log"
