#!/usr/bin/env python3
"""Runs the quick check of each seeded change's property on a scratch worktree with the change
applied (tools/seedrun.sh; /repo itself is not touched), a few seeds in parallel, and records
the outcome in seeded/<id>/detect.json.  usage: seedmatrix.py [-j N] [--tier quick] [seed-id[:P1,P2] ...]"""
import concurrent.futures as cf, json, os, re, subprocess, sys, time

V = os.path.dirname(os.path.dirname(os.path.realpath(__file__)))
ROOT = V + "/seeded"
FIND = {f["id"]: f for f in json.load(open(V + "/known_findings.json"))["findings"]}

def props_of(seed):
    if seed.startswith("revert-"):
        return [FIND[seed[7:]]["property"]]
    return [seed.split("-")[0]]

def run(seed, props, tier):
    t = time.time()
    p = subprocess.run([V + "/tools/seedrun.sh", seed, tier] + props, stdout=subprocess.PIPE,
                       stderr=subprocess.STDOUT, text=True)
    res = {}
    for line in p.stdout.splitlines():
        m = re.match(r"(\S+) (C\d\d) rc=(\d+) tags=(\S*) toolerr=(\d+)", line)
        if m:
            res[m.group(2)] = {"rc": int(m.group(3)), "caught": m.group(3) == "1",
                               "guards": [x for x in m.group(4).split(",") if x],
                               "tier": tier}
    head = subprocess.run(["git", "-C", V, "rev-parse", "--short", "HEAD"], stdout=subprocess.PIPE, text=True).stdout.strip()
    out = {"verif_commit": head + "+", "results": res, "wall_s": round(time.time() - t)}
    dp = os.path.join(ROOT, seed, "detect.json")
    old = json.load(open(dp)) if os.path.exists(dp) else {"results": {}}
    old["results"].update(res); old["verif_commit"] = out["verif_commit"]; old["wall_s"] = out["wall_s"]
    json.dump(old, open(dp, "w"), indent=1)
    return seed, res, p.stdout

def main():
    args = sys.argv[1:]
    j = 3; tier = "quick"
    if "-j" in args:
        i = args.index("-j"); j = int(args[i + 1]); del args[i:i + 2]
    if "--tier" in args:
        i = args.index("--tier"); tier = args[i + 1]; del args[i:i + 2]
    seeds = args or sorted(x for x in os.listdir(ROOT) if os.path.isdir(os.path.join(ROOT, x)))
    jobs = []
    for s in seeds:
        if ":" in s:
            s, ps = s.split(":"); jobs.append((s, ps.split(",")))
        else:
            jobs.append((s, props_of(s)))
    with cf.ThreadPoolExecutor(max_workers=j) as ex:
        futs = [ex.submit(run, s, ps, tier) for s, ps in jobs]
        for f in cf.as_completed(futs):
            seed, res, out = f.result()
            for p, r in res.items():
                print("%-12s %s %s %s" % (seed, p, "CAUGHT" if r["caught"] else "rc=%d" % r["rc"], ",".join(r["guards"])), flush=True)
            if not res or any(r["rc"] == 2 for r in res.values()):
                print(out, flush=True)

if __name__ == "__main__":
    main()
