#!/bin/bash
# usage: seedrun.sh <seed-id> <tier> <property>...
# Tries the checks of the given properties on a seeded change WITHOUT touching /repo: a scratch
# worktree of /repo's HEAD is made under /tmp/seedrun/<seed-id>/repo, the patch applied there,
# and ./check runs with VERIF_REPO / VERIF_SCRATCH pointing at it.  Prints one line per property:
#   <seed-id> <property> rc=<rc> tags=<guard tags of the violations reported>
# and removes the worktree and all scratch output afterwards.  Several seedruns may run in parallel.
seed="$1"; tier="$2"; shift 2
V="$(dirname "$(dirname "$(readlink -f "$0")")")"
S=/tmp/seedrun/$seed
patch=$V/seeded/$seed/patch.diff
[ -f "$patch" ] || { echo "$seed: no patch"; exit 2; }
rm -rf "$S"; mkdir -p "$S"
git -C /repo worktree add -q --detach "$S/repo" HEAD || exit 2
cleanup() { git -C /repo worktree remove --force "$S/repo" 2>/dev/null; rm -rf "$S"; }
trap cleanup EXIT
git -C "$S/repo" apply "$patch" || { echo "$seed: patch does not apply"; exit 2; }
export VERIF_REPO="$S/repo" VERIF_SCRATCH="$S/scratch"
mkdir -p "$S/scratch"
for p in "$@"; do
  out=$(cd "$V" && ./check "$p" --tier "$tier" 2>"$S/err.txt"); rc=$?
  tags=$(grep -o "guard '[^']*'" "$S/err.txt" | sort | uniq -c | awk '{print $3"x"$1}' | tr -d "'" | tr '\n' ',' )
  [ -z "$tags" ] && tags=$(echo "$out" | grep -o 'replay=[^ ]*' | head -3 | while read r; do python3 -c "import json,sys; d=json.load(open('${r#replay=}'.replace('replay=',''))); print(d.get('tag'))" 2>/dev/null; done | tr '\n' ',')
  toolerr=$(grep -c "TOOL ERROR" "$S/err.txt")
  echo "$seed $p rc=$rc tags=$tags toolerr=$toolerr"
  [ "$rc" = 2 ] && grep -A8 "TOOL ERROR" "$S/err.txt" | head -12 | sed "s/^/   | /"
done
exit 0
