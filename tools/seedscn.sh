#!/bin/bash
# usage: seedscn.sh <seed-id> <engine> <scenario-prefix> [dbgscn options]
# Runs selected scenarios of one trace engine on a scratch worktree of /repo with the seeded change
# applied (fast targeted variant of seedrun.sh); removes the worktree afterwards.
seed="$1"; eng="$2"; pref="$3"; shift 3
S=/tmp/seedscn/$seed
rm -rf "$S"; mkdir -p "$S/scratch"
git -C /repo worktree add -q --detach "$S/repo" HEAD || exit 2
trap 'git -C /repo worktree remove --force "$S/repo" 2>/dev/null; rm -rf "$S"' EXIT
git -C "$S/repo" apply "$(dirname "$(readlink -f "$0")")/../seeded/$seed/patch.diff" || { echo "patch does not apply"; exit 2; }
VERIF_REPO="$S/repo" VERIF_SCRATCH="$S/scratch" python3 "$(dirname "$(readlink -f "$0")")/dbgscn.py" "$eng" "$pref" "$@"
