#!/bin/bash
# usage: try_mutant.sh <patch.diff> <property>...   — applies the patch to /repo, runs the quick checks, reverts.
patch="$1"; shift
cd /repo || exit 2
if ! git diff --quiet; then echo "repo dirty"; exit 2; fi
git apply "$patch" || { echo "patch does not apply"; exit 2; }
for p in "$@"; do
  out=$(cd /verif && ./check "$p" --tier quick 2>/tmp/try_mutant.err)
  rc=$?
  echo "== $p rc=$rc $(echo "$out" | grep -c VIOLATION) violation line(s)"
  echo "$out" | head -3
  grep -E "guard|TOOL ERROR" /tmp/try_mutant.err | head -4
done
git -C /repo checkout -- .
